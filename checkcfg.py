"""Per-property configuration of the driver: evidence level, the rule that makes a case
distinct and non-trivial (DESIGN.md appendix B), assumptions, non-vacuity minima."""

BASE_ASSUME = [
    "Go runtime, go-ipld-prime v0.21 (LinkSystem, traversal, selectors) and go-codec-dagpb behave as documented",
    "the harness's own generators, instrumented store and oracles are correct (validated by the seeded-change campaign, DESIGN.md section 9)",
    "only the executions produced by this run are covered: held on what was observed, not verified",
]
BOXO = "boxo v0.24.0 (balanced/trickle importers, unixfs/hamt) and gogo-protobuf are correct reference implementations"
MURMUR = "spaolacci/murmur3 is used by both the library and the oracle (a shared hash bug would be invisible; layout is cross-checked against boxo)"

PROPS = {
    "C01": dict(
        level="exploration",
        rule="case = (writer, link width, chunk count, tail, chunker, content kind); every chunk count 0..w^3+w+2 for small widths enumerates every balanced-tree shape; each DAG is read back through 4 open paths x AsBytes/Read loops with 7+ buffer sizes/OneByte/Half readers and compared byte-for-byte with the input, plus Seek(0,End) and declared FileSize; signature = (writer,width,depth,right-spine child counts,chunker kind); non-trivial iff the DAG has >= 2 blocks",
        assumptions=BASE_ASSUME + [BOXO],
        require={"any": {"reads_compared": 100, "dags_ge2_levels": 5}},
    ),
    "C02": dict(
        level="exploration",
        rule="case = (builder, fanout, entry-set family and size); after build + Reify every member is looked up, non-member probes must be not-found, MapIterator and native Iterator are drained into multisets and compared with the Go-map model, Length compared; plus an exhaustive hashBits sweep; signature = (builder,fanout,max depth,name family,size class); non-trivial iff >= 2 entries",
        assumptions=BASE_ASSUME + [MURMUR],
        require={"any": {"lookups_member": 100, "lookups_nonmember": 100, "max_hamt_depth": 3}},
    ),
    "C03": dict(
        level="exploration",
        rule="case = (random tree, path string incl. spelling variants and perturbations, target selector, matchPath); WalkMatching/WalkAdv from the raw root; the visitor's match list (path, kind, bytes or drained entry map) is compared with the tree model; signature = (path depth, #HAMT levels crossed, target kind, selector, matchPath, spelling class, hit/miss); non-trivial iff path depth >= 1",
        assumptions=BASE_ASSUME,
        require={"any": {"traversals": 50, "matches_compared": 20}},
    ),
    "C04": dict(
        level="exploration",
        rule="case = (file shape, number of readers, Seek/Read history of 1..40 steps); every step's return values are compared online with a byte-slice io.ReadSeeker model, one model per reader; signature = (file shape, #readers, sequence of (op,region) classes truncated to 12 steps); non-trivial iff the history has >= 1 Seek and >= 1 Read",
        assumptions=BASE_ASSUME + [BOXO],
        require={"any": {"steps": 1000, "neg_seeks": 5}},
    ),
    "C05": dict(
        level="exploration",
        rule="case = (file shape) x ALL ranges [a,b) for small files (exhaustive) or boundary ranges, via Seek+ReadFull, SeekEnd form and MatcherSubset traversal; (sharded dir) x every member + non-member lookups; (tree) x every path; the store's read log must be a subset of the oracle's allowed set; signature = (kind, shape, range class | fanout-depth | path depth); non-trivial iff DAG has >= 2 blocks",
        assumptions=BASE_ASSUME + [MURMUR],
        require={"any": {"requests_checked": 200, "loads_observed": 200}},
        exhaustive_note="all 0<=a<b<=len ranges of every file shape with len <= 40",
    ),
    "C06": dict(
        level="fault_enumeration",
        rule="case = (entity: file shape or sharded directory, access form in {preload reifier, preload selector, entity selector+BytesConsumingMatcher}); read log set must EQUAL the entity's block set; then EVERY single block of the entity is made unavailable in turn (both error kinds) and the access must report an error; signature = (entity kind, shape, access form, fault position class); non-trivial iff entity has >= 2 blocks",
        assumptions=BASE_ASSUME,
        require={"any": {"faults_injected": 50, "exact_sets_checked": 20}},
        exhaustive_note="every single missing block of every generated entity",
    ),
    "C07": dict(
        level="exploration",
        rule="case = (link width, chunk count, tail, chunker, content kind); builder (root,size) compared with boxo balanced.Layout(RawLeaves, CIDv1, Maxlinks=width) on identical input; signature = (width, depth, right-spine child counts, chunker kind); non-trivial iff depth >= 2",
        assumptions=BASE_ASSUME + [BOXO],
        require={"any": {"compared": 100, "shapes_single_child_interior": 3, "shapes_single_child_chain": 1, "shapes_full_levels": 1}},
    ),
    "C08": dict(
        level="exploration",
        rule="case = (fanout, entry set) side-by-side build vs boxo hamt.Shard.Node(); or (fanout, random SetLink/Remove history on a boxo shard with snapshots) read back through Reify and compared with boxo EnumLinks and the model; signature = (fanout, depth, family, size class) / (fanout, history length class, removals class); non-trivial iff >= 2 entries",
        assumptions=BASE_ASSUME + [BOXO, MURMUR],
        require={"any": {"cid_comparisons": 50, "snapshots_read": 20, "max_hamt_depth": 3}},
    ),
    "C09": dict(
        level="exploration",
        rule="case = batch of (logical message: type x presence mask x value vector) x wire presentation (field order, packed/unpacked/interleaved blocksizes, unknown fields of every wire type, non-minimal varints); decode compared field-by-field with gogo-protobuf, encode decoded by gogo, canonical round trip, Permissions(); signature = (type, presence mask, presentation kind, value class); non-trivial iff >= 2 fields present",
        assumptions=BASE_ASSUME + [BOXO],
        require={"any": {"decodes_compared": 1000, "packed_presentations": 50, "encodes_compared": 100, "canonical_roundtrips": 50}},
    ),
    "C10": dict(
        level="exploration",
        order_pass=True,
        rule="case = (builder, logical input) rebuilt R times in-process (Go re-randomises map iteration), under P permutations of the entry slice and F fragmentations of the source reader; all (link,size) results must be identical; write-order hashes are recorded; every case is evaluated a second time in worker processes that enumerate the cases in reverse order and the results are compared across processes (no dependence on process history); signature = (builder, input class, variation kind); non-trivial iff >= 2 blocks or >= 2 entries",
        assumptions=BASE_ASSUME,
        require={"any": {"builds_compared": 200, "max_distinct_write_orders": 2}},
    ),
    "C11": dict(
        level="exploration",
        rule="case = one built DAG (files of all shapes incl. all-zero/periodic content with shared blocks, plain/sharded directories over real children, recursive imports); independent walk checks returned size == tree size, every link's Tsize == tree size of its target, interior filesize/blocksizes == content bytes beneath; signature = (builder, shape, has-shared-blocks); non-trivial iff >= 1 link",
        assumptions=BASE_ASSUME,
        require={"any": {"links_checked": 500, "dags_with_shared_blocks": 3}},
    ),
    "C12": dict(
        level="fault_enumeration",
        rule="case = (DAG, fault plan): for every single block (exhaustive), random subsets, k-th load failing for every k, both error kinds; sequential read must return exactly the bytes preceding the first unavailable span then the injected error; lookups across a missing shard must return the load error; iteration must terminate within its logical bound, yield reachable entries exactly once and report one error per missing shard met; signature = (entity kind, shape, fault kind, fault position class, error kind); non-trivial iff the fault hits a non-root block",
        assumptions=BASE_ASSUME + [MURMUR],
        require={"any": {"faults_injected": 200, "errors_matched": 100}},
        exhaustive_note="every single missing block / shard of every generated DAG; k-th load failing for every k",
    ),
    "C13": dict(
        level="exploration",
        rule="case = batch of hostile inputs: random/mutated bytes to the three decoders; mutated and directly constructed dag-pb DAGs (adversarial bitfield, fanout, names, sizes, types, child codecs) reified three ways and driven through ~40 node operations each under recover with logical load/Next/byte budgets; signature = (mutation class, operation); non-trivial iff the input decodes as dag-pb / is non-empty",
        assumptions=BASE_ASSUME,
        require={"any": {"decoder_inputs": 1000, "dags": 500, "operations": 10000}},
    ),
    "C14": dict(
        level="exploration",
        rule="case = (input class x variant): non-dag-pb nodes of every kind, dag-pb without/undecodable Data, each of the six types with/without links, out-of-range types, invalid shard parameters, through Reify / lazy / preload reifiers; result class compared with the table oracle; Substrate() must be the identical input node and re-encode to the same bytes; signature = (input class, variant); always non-trivial",
        assumptions=BASE_ASSUME,
        require={"any": {"nodes": 200, "substrate_checks": 100}},
    ),
    "C15": dict(
        level="exploration",
        rule="case = (view, link list): lists with absent/empty/duplicate names in any order, in-memory and hand-encoded, viewed as plain directory and generic link map, plus well-formed sharded directories from this builder and boxo; iteration count vs Length, Done, every yielded key found under a yielded link, unyielded keys not found, four lookup entry points agree; signature = (view, list class, length class); non-trivial iff >= 2 links",
        assumptions=BASE_ASSUME + [BOXO],
        require={"any": {"lists": 200, "lookups_crosschecked": 1000}},
    ),
    "C16": dict(
        level="fault_enumeration",
        rule="case = (build) run once with the commit-time invariant hook (every link of the block being committed that this build produces is already committed), then re-run failing the k-th write-open and the k-th commit for EVERY k and with a failing Write: must return (nil link, error) and the partial store must be dangling-free; signature = (builder, shape, fault kind, k class); non-trivial iff >= 2 writes",
        assumptions=BASE_ASSUME,
        require={"any": {"commits_checked": 500, "faults_injected": 200}},
        exhaustive_note="failure at the k-th write-open and k-th commit for every k of every generated build",
    ),
    "C17": dict(
        level="exploration",
        race=True,
        shards=8,
        rule="case = round: one fresh shared node (sharded directory cold/warm, multi-level file) x G in {2,4,8,16} goroutines released by a barrier doing seeded mixes of lookups/iteration/Length/readers with yields injected at the memoisation hooks; every result compared with the sequential answer (also on directories with a missing or fanout-mismatched child shard, where the answer alone is taken on a fresh node); a stalled round is judged from stop-the-world stack snapshots (all unfinished workers parked in a lock acquisition inside the library = deadlock); race-detector reports parsed from GORACE logs and de-duplicated by innermost library frame pair; signature = (node kind, G, hooks, interleaving hash of hook events); non-trivial iff >= 2 goroutines overlapped at a hook site or in operations",
        assumptions=BASE_ASSUME + ["the Go race detector reports only races that occur in the executions produced (no false positives, possible false negatives)"],
        require={"any": {"rounds": 20, "ops_compared": 1000, "overlapped_rounds": 5}},
    ),
    "C18": dict(
        level="exploration",
        shards=8,
        rule="case = on-disk tree (mktemp) with regular/empty files, nested/empty/large directories, relative/absolute/dangling/dir symlinks, odd names; imported with BuildUnixFSRecursive and walked through Reify: names per directory, bytes per file, symlink target text, kinds; trees with a fifo/socket must be rejected; signature = (depth, symlink kinds, empty dir, threshold crossing, negative kind); non-trivial iff >= 2 entries",
        assumptions=BASE_ASSUME + ["the local filesystem returns what was written (no I/O faults are injected; C18 does not quantify over them)"],
        require={"any": {"trees": 5, "entries_compared": 50, "rejected_trees": 2}},
    ),
    "C19": dict(
        level="exploration",
        rule="case = (generator, options, target size, seed of the replacement random source); the returned DirEntry tree is compared level by level with an independent walk of the stored DAG (names, contents, child roots), sibling names non-empty and unique, path = parent path + / + name for the directory generators; ToDirEntry and CompareDirEntries cross-checked in sub-tests; signature = (generator, sharded, depth, size class); non-trivial iff >= 2 entries or >= 2 blocks",
        assumptions=BASE_ASSUME,
        require={"any": {"generations": 20, "entries_compared": 100}},
    ),
    "C20": dict(
        level="exploration",
        rule="case = (DAG, operation in {sequential read, preload reification, full iteration, Length, path traversal}) repeated R times on fresh nodes; the first-request order of distinct blocks must equal the walker's depth-first link-order listing and be identical across repeats; signature = (entity kind, shape, operation); non-trivial iff >= 3 blocks",
        assumptions=BASE_ASSUME,
        require={"any": {"logs_compared": 100, "dags_ge3_levels": 3}},
    ),
}
