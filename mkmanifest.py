#!/usr/bin/env python3
"""Regenerates MANIFEST.json from checkcfg.py (claimed checks) so the two cannot drift."""
import json, subprocess, sys, os
ROOT = os.path.dirname(os.path.abspath(__file__))
sys.path.insert(0, ROOT)
from checkcfg import PROPS
from manifest_text import TEXT, HOOK_COMMITS

props = [json.loads(l) for l in open(os.path.join(ROOT, "properties.jsonl"))]
checks, na = [], []
for p in props:
    pid = p["id"]
    t = TEXT.get(pid)
    if not t or not t.get("claimed"):
        na.append({"property_id": pid, "reason": (t or {}).get("reason", "check not built yet (runtime monitoring applies; see DESIGN.md section 5)")})
        continue
    cfg = PROPS[pid]
    checks.append({
        "property_id": pid,
        "quick_cmd": "./check %s quick" % pid,
        "thorough_cmd": "./check %s thorough" % pid,
        "evidence_file": "/verif/evidence/%s.json" % pid,
        "replay_cmd_template": "./check %s --replay {path}" % pid,
        "engine": "runtime-monitors",
        "level_claimed": {"category": cfg["level"], "text": t["level_text"], "design_ref": "DESIGN.md section 5, " + pid},
        "level_note": t["note"],
        "technique": t["technique"],
    })
m = {
    "version": 1,
    "setup_cmd": "./check --setup",
    "hooks": {
        "guard": "verif",
        "enable": "workers are built with `go test -c -tags verif [-race] ./props` in /verif/harness, whose go.mod replaces github.com/ipfs/go-unixfsnode => /repo (current working tree)",
        "baseline_off_cmd": "cd /repo && GOFLAGS=-mod=mod GOPROXY=off GOSUMDB=off GOTOOLCHAIN=local go test -vet=off -count=1 -timeout 25m ./...",
        "source_commits": HOOK_COMMITS,
        "add_only": True,
    },
    "engines": [{
        "name": "runtime-monitors",
        "path": "/verif/harness",
        "serves_properties": [c["property_id"] for c in checks],
        "kind_free_text": "Go test binaries (plain and -race) run as sharded child processes by ./check: instrumented block store + event log, reference-model oracles (byte slice, Go map, boxo importers/HAMT, gogo-protobuf), offline log checkers, fault plans, panic/budget monitor, Go race detector",
    }],
    "checks": checks,
    "not_applicable": na,
    "notes": "Technique family: runtime monitoring and sanitizers. Every check executes the real code in /repo under generated, hostile and fault-injected workloads while monitors observe it; verdicts are three-valued (exit 0 held / 1 VIOLATION / 2 inconclusive). known_findings.json lists recorded defects (open) and repaired ones (fixed).",
}
json.dump(m, open(os.path.join(ROOT, "MANIFEST.json"), "w"), indent=1)
print("MANIFEST: %d checks, %d not_applicable" % (len(checks), len(na)))
