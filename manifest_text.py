HOOK_COMMITS = ["de0fc26", "449ca56"]

TEXT = {
 "C01": dict(claimed=True,
   technique="reference-model monitor (byte-slice oracle) over exhaustive small-shape enumeration + boxo-written and hand-made DAGs",
   level_text="Every generated file DAG (all chunk counts 0..w^3+w+2 for small link widths = every balanced-tree shape up to 4 levels; the default width 174 on its boundaries; size/rabin/buzhash/default chunkers; boxo balanced/trickle x raw/pb leaves x CIDv0/v1; hand-made files without blocksizes/filesize) is read back through the direct reader, Reify and both registered reifiers with AsBytes, Read loops at 7 buffer sizes, OneByte/Half readers and io.Copy, and compared byte-for-byte with the input; Seek(0,End) and the independently decoded FileSize are compared with the length. Exploration, not proof: contents beyond a few MiB are not reached.",
   note="trusts go-codec-dagpb/gogo-protobuf for the independent decode of FileSize and boxo v0.24 as writer of the reference DAGs"),
}
