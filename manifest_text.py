HOOK_COMMITS = ["de0fc26", "449ca56"]

TEXT = {
 "C01": dict(claimed=True,
   technique="reference-model monitor (byte-slice oracle) over exhaustive small-shape enumeration + boxo-written and hand-made DAGs",
   level_text="Every generated file DAG (all chunk counts 0..w^3+w+2 for small link widths = every balanced-tree shape up to 4 levels; the default width 174 on its boundaries; size/rabin/buzhash/default chunkers; boxo balanced/trickle x raw/pb leaves x CIDv0/v1; hand-made files without blocksizes/filesize) is read back through the direct reader, Reify and both registered reifiers with AsBytes, Read loops at 7 buffer sizes, OneByte/Half readers and io.Copy, and compared byte-for-byte with the input; Seek(0,End) and the independently decoded FileSize are compared with the length. Exploration, not proof: contents beyond a few MiB are not reached.",
   note="trusts go-codec-dagpb/gogo-protobuf for the independent decode of FileSize and boxo v0.24 as writer of the reference DAGs"),
 "C07": dict(claimed=True,
   technique="differential monitor against the boxo reference balanced importer over exhaustive small-shape enumeration",
   level_text="For every case of the structured file enumeration (every chunk count 0..w^3+w+2 for small widths, default width boundaries incl. 349 and 174^2+1 chunks, all chunker families, de-duplicated contents, seeded fill-in) the builder's (root CID, cumulative size) is compared with boxo balanced.Layout configured with raw leaves, CIDv1 and Maxlinks=width on the same bytes; a mismatch is localised to the first differing node. The run is inconclusive unless full-level, single-child-interior and single-child-chain shapes were all produced.",
   note="trusts boxo v0.24 importer/helpers/chunker as the reference; CID equality covers every byte of every block"),
 "C02": dict(claimed=True,
   technique="reference-model monitor (Go map oracle) over built directories incl. murmur3 pre-image sets forcing every HAMT depth; exhaustive hashBits sweep via verif hook",
   level_text="Each generated entry set (all 8 fanouts x sizes {0,1,2,3,f-1,f,f+1,2f+1,300,2000[,50000]} x 6 name families incl. hex-prefix-looking, numeric, unicode; crafted 16-byte names whose murmur3 hashes share s bits for every level s up to the last usable one, with the unresolvable ones cross-checked against boxo's refusal; sizes straddling the 262144-byte auto-shard threshold; quick builder) is built, reified and compared with a Go map: every member looked up, derived and bucket-colliding non-members must be not-found (schema.ErrNoSuchField), MapIterator and native Iterator drained and compared as multisets, Length compared. Both private hashBits helpers are swept over every (offset,width 3..10) pair against the oracle's own bit slicing.",
   note="the library and the oracle share spaolacci/murmur3; the iteration monitor trusts go-codec-dagpb's decode of the stored blocks"),
 "C08": dict(claimed=True,
   technique="differential monitor against boxo unixfs/hamt (side-by-side builds) + history-driven interop monitor (reference insert/remove histories read back against a map model)",
   level_text="(1) For every non-empty entry set of the C02 enumeration (all fanouts, crafted deep sets) BuildUnixFSShardedDirectory's (root, size) is compared with boxo hamt.Shard.Node() fed the same (name, link, size) entries in a different random order; sets that no 64-bit HAMT of that fanout can hold must be refused by both. (2) Random SetLink/Remove histories of 10..2000 steps on a boxo shard (removal-heavy phases, drained to one entry) are serialised at random points and read back through Reify: lookups of all live and removed names, both iterators, Length compared with the model and with boxo's own EnumLinks.",
   note="boxo v0.24 unixfs/hamt is the reference; both sides share spaolacci/murmur3"),
}
