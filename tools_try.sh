#!/bin/sh
# usage: tools_try.sh <patchfile> <prop> [tier]  -- applies a patch to /repo, runs the check, reverts
p=$1; prop=$2; tier=${3:-quick}
git -C /repo apply "$p" || { echo "APPLY FAIL $p"; exit 3; }
/verif/check $prop $tier > /tmp/try.$$ 2>&1; rc=$?
echo "== $p on $prop/$tier: exit $rc; $(grep -c '^VIOLATION' /tmp/try.$$) VIOLATION lines; $(grep -m1 '  key=' /tmp/try.$$)"
git -C /repo checkout -- . ; rm -f /tmp/try.$$
