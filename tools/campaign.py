#!/usr/bin/env python3
"""Mutation campaign: applies every seeded change under /verif/seeded to /repo (git apply), runs the quick
check of the property it breaks (and any extra checks listed), records whether a VIOLATION was raised,
and undoes the change (git checkout -- .). Never commits anything to /repo.

  tools/campaign.py [id ...] [--tier quick|thorough] [--all-checks]
"""
import json, os, subprocess, sys, glob, time
ROOT = os.path.dirname(os.path.dirname(os.path.abspath(__file__)))
ids = [a for a in sys.argv[1:] if not a.startswith("--")]
tier = "quick"
if "--tier" in sys.argv:
    tier = sys.argv[sys.argv.index("--tier") + 1]
    ids = [i for i in ids if i != tier]
allchecks = "--all-checks" in sys.argv
props = [json.loads(l)["id"] for l in open(os.path.join(ROOT, "properties.jsonl"))]
rows = []
assert subprocess.run(["git", "-C", "/repo", "status", "--porcelain"], capture_output=True, text=True).stdout.strip() == "", "/repo working tree must be clean"
for d in sorted(glob.glob(os.path.join(ROOT, "seeded", "*"))):
    sid = os.path.basename(d)
    if not os.path.isdir(d) or (ids and sid not in ids):
        continue
    meta = json.load(open(os.path.join(d, "meta.json")))
    targets = props if allchecks else [meta["breaks_property"]] + meta.get("also_check", [])
    r = subprocess.run(["git", "-C", "/repo", "apply", os.path.join(d, "patch.diff")], capture_output=True, text=True)
    if r.returncode != 0:
        rows.append((sid, "-", "patch does not apply: " + r.stderr.strip()[:100]))
        continue
    try:
        det = {}
        for p in targets:
            t0 = time.time()
            use_tier = meta.get("needs_tier", tier)
            out = subprocess.run([os.path.join(ROOT, "check"), p, use_tier], capture_output=True, text=True, cwd=ROOT)
            keys = sorted({l.strip()[4:] for l in out.stdout.splitlines() if l.startswith("  key=")})
            det[p] = dict(exit=out.returncode, violation_lines=out.stdout.count("\nVIOLATION") + out.stdout.startswith("VIOLATION"), keys=keys[:6], seconds=round(time.time() - t0, 1))
            rows.append((sid, p, "exit %d, %s" % (out.returncode, ", ".join(keys[:3]) or "no violation")))
        meta["campaign"] = dict(tier=tier, results=det, repo_head=subprocess.run(["git", "-C", "/repo", "rev-parse", "--short", "HEAD"], capture_output=True, text=True).stdout.strip())
        json.dump(meta, open(os.path.join(d, "meta.json"), "w"), indent=1)
    finally:
        subprocess.run(["git", "-C", "/repo", "checkout", "--", "."], check=True)
        subprocess.run(["git", "-C", "/repo", "clean", "-fdq"], check=True)
for r in rows:
    print("%-16s %-4s %s" % r)
missed = [r for r in rows if "exit 1" not in r[2]]
print("%d runs, %d without a VIOLATION" % (len(rows), len(missed)))
