#!/usr/bin/env python3
"""Writes seeded/RESULTS.md from the campaign results stored in seeded/*/meta.json."""
import json, glob, os
ROOT = os.path.dirname(os.path.dirname(os.path.abspath(__file__)))
rows = ["| id | breaks | change | needs, in order to manifest | caught by (check: finding keys) |", "|---|---|---|---|---|"]
n = caught = 0
for d in sorted(glob.glob(os.path.join(ROOT, "seeded", "*"))):
    if not os.path.isdir(d):
        continue
    m = json.load(open(os.path.join(d, "meta.json")))
    c = m.get("campaign", {}).get("results", {})
    det = "; ".join("%s: %s" % (p, ", ".join(k.split("|", 1)[1] for k in v["keys"][:2]) or "exit %d" % v["exit"]) for p, v in c.items())
    n += 1
    caught += any(v["exit"] == 1 for v in c.values())
    rows.append("| %s | %s | %s | %s | %s |" % (m["id"], m["breaks_property"], m["summary"][:220].replace("|", "/"), m["needs"][:200].replace("|", "/"), det.replace("|", "¦")))
open(os.path.join(ROOT, "seeded", "RESULTS.md"), "w").write(
    "# Seeded-change campaign\n\n%d changes, %d caught by the quick check of the property they break.\n"
    "Every change compiles and passes the unedited suite; `tools/campaign.py` applies each to /repo, runs the check and undoes it.\n\n" % (n, caught) + "\n".join(rows) + "\n")
print(n, caught)
