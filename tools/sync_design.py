#!/usr/bin/env python3
"""Rewrites the 'As built' paragraph of every property section of DESIGN.md from manifest_text.py."""
import re, sys
sys.path.insert(0, '/verif')
import manifest_text as m
p = '/verif/DESIGN.md'
lines = open(p).read().split('\n')
cur = None
n = 0
for i, ln in enumerate(lines):
    h = re.match(r'### (C\d\d) ', ln)
    if h:
        cur = h.group(1)
    elif ln.startswith('## '):
        cur = None
    if cur and ln.startswith('**As built.** '):
        t = m.TEXT[cur]
        lines[i] = '**As built.** %s *Technique:* %s. *Note:* %s.' % (t['level_text'], t['technique'], t['note'])
        n += 1
open(p, 'w').write('\n'.join(lines))
print('rewrote', n, 'paragraphs')
