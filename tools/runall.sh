#!/bin/bash
# runs every check of one tier once; prints one line per check
tier=${1:-quick}
cd /verif
for p in $(python3 -c "import json;print(' '.join(c['property_id'] for c in json.load(open('MANIFEST.json'))['checks']))"); do
  out=$(./check $p $tier 2>&1); rc=$?
  echo "$p $tier seed=${VERIF_SEED:-1} exit=$rc $(echo "$out" | grep -E "^$p $tier" | sed 's/.*: //')"
  [ $rc -ne 0 ] && echo "$out" | grep -E "VIOLATION|INCONCLUSIVE|  key=" | head -8
done
