#!/bin/bash
# Confirms a sub-agent's seeded change in a scratch worktree of /repo:
#   demo passes on the unchanged tree, fails with the change, and the unedited suite passes with the change.
# usage: verify_seeded.sh <dir with patch.diff demo_test.go meta.json> <scratch worktree>
export GOFLAGS=-mod=mod GOPROXY=off GOSUMDB=off GOTOOLCHAIN=local
d=$1; wt=$2
patch=$d/patch.diff; [ -f $d/patch.ported.diff ] && patch=$d/patch.ported.diff
demo_dir=$(python3 -c "import json,sys;print(json.load(open('$d/meta.json'))['demo_dir'])")
demo_cmd=$(python3 -c "import json,sys;print(json.load(open('$d/meta.json'))['demo_cmd'])")
case "$demo_cmd" in cp\ *\&\&*) demo_cmd="${demo_cmd#*&& }";; esac
demo_dir=${demo_dir%/}; demo_dir=${demo_dir#./}; [ -z "$demo_dir" ] && demo_dir=.
cd $wt || exit 9
git checkout -q -- . ; git clean -fdq
demo=$d/demo_test.go; [ -f $demo ] || demo=$d/demo_test.go.txt
cp $demo $demo_dir/zz_demo_test.go
clean=$(eval "$demo_cmd" 2>&1); rc_clean=$?
git apply $patch || { echo "RESULT $d apply-failed"; git checkout -q -- .; git clean -fdq; exit 3; }
go build ./... || { echo "RESULT $d build-failed"; git checkout -q -- .; git clean -fdq; exit 4; }
mut=$(eval "$demo_cmd" 2>&1); rc_mut=$?
rm -f $demo_dir/zz_demo_test.go
git checkout -q -- go.mod go.sum 2>/dev/null
suite=$(go test -vet=off -count=1 ./... 2>&1); rc_suite=$?
git checkout -q -- . ; git clean -fdq
echo "RESULT $d demo_clean_rc=$rc_clean demo_mutant_rc=$rc_mut suite_rc=$rc_suite"
