package oracle

import (
	"bytes"
	"context"
	"fmt"
	"io"

	chunk "github.com/ipfs/boxo/chunker"
	dag "github.com/ipfs/boxo/ipld/merkledag"
	bhamt "github.com/ipfs/boxo/ipld/unixfs/hamt"
	"github.com/ipfs/boxo/ipld/unixfs/importer/balanced"
	"github.com/ipfs/boxo/ipld/unixfs/importer/helpers"
	"github.com/ipfs/boxo/ipld/unixfs/importer/trickle"
	blocks "github.com/ipfs/go-block-format"
	"github.com/ipfs/go-cid"
	format "github.com/ipfs/go-ipld-format"
	"github.com/multiformats/go-multihash"

	"verifharness/store"
)

// DagServ is a minimal ipld-format DAGService over the instrumented store, so
// that the reference implementations write into (and read from) the same
// block store the library under test is pointed at.
type DagServ struct{ S *store.Store }

var _ format.DAGService = (*DagServ)(nil)

func (d *DagServ) Add(_ context.Context, nd format.Node) error {
	d.S.Put(nd.Cid(), nd.RawData())
	return nil
}

func (d *DagServ) AddMany(ctx context.Context, nds []format.Node) error {
	for _, n := range nds {
		d.Add(ctx, n)
	}
	return nil
}

func (d *DagServ) Get(_ context.Context, c cid.Cid) (format.Node, error) {
	raw, ok := d.S.Get(c)
	if !ok {
		return nil, format.ErrNotFound{Cid: c}
	}
	blk, err := blocks.NewBlockWithCid(raw, c)
	if err != nil {
		return nil, err
	}
	switch c.Prefix().Codec {
	case cid.DagProtobuf:
		return dag.DecodeProtobufBlock(blk)
	case cid.Raw:
		return dag.DecodeRawBlock(blk)
	}
	return nil, fmt.Errorf("oracle dagserv: unsupported codec %x", c.Prefix().Codec)
}

func (d *DagServ) GetMany(ctx context.Context, cs []cid.Cid) <-chan *format.NodeOption {
	ch := make(chan *format.NodeOption, len(cs))
	for _, c := range cs {
		n, err := d.Get(ctx, c)
		ch <- &format.NodeOption{Node: n, Err: err}
	}
	close(ch)
	return ch
}

func (d *DagServ) Remove(_ context.Context, c cid.Cid) error { return nil }
func (d *DagServ) RemoveMany(_ context.Context, _ []cid.Cid) error {
	return nil
}

var V1Builder = cid.V1Builder{Codec: cid.DagProtobuf, MhType: multihash.SHA2_256}

// inlineBuilder addresses blocks of at most limit bytes with identity
// multihashes (the block is the CID), larger ones with b.
type inlineBuilder struct {
	b     cid.Builder
	limit int
}

func (i inlineBuilder) GetCodec() uint64 { return i.b.GetCodec() }
func (i inlineBuilder) WithCodec(c uint64) cid.Builder {
	return inlineBuilder{b: i.b.WithCodec(c), limit: i.limit}
}
func (i inlineBuilder) Sum(data []byte) (cid.Cid, error) {
	if len(data) > i.limit {
		return i.b.Sum(data)
	}
	return cid.V1Builder{Codec: i.b.GetCodec(), MhType: multihash.IDENTITY}.Sum(data)
}

type ImportMode struct {
	Layout    string // balanced | trickle
	RawLeaves bool
	CidV1     bool
	Inline    int // > 0: blocks of at most this many bytes are inlined into identity CIDs (ipfs add --inline)
}

func (m ImportMode) String() string {
	s := m.Layout
	if m.RawLeaves {
		s += "+raw"
	} else {
		s += "+pb"
	}
	if m.CidV1 {
		s += "+v1"
	} else {
		s += "+v0"
	}
	if m.Inline > 0 {
		s += fmt.Sprintf("+inline%d", m.Inline)
	}
	return s
}

// RefDefaultWidth is the link width the reference importer uses when nothing is configured.
var RefDefaultWidth = helpers.DefaultLinksPerBlock

// RefImport runs the boxo reference importer, writing blocks into st.
func RefImport(st *store.Store, r io.Reader, chunker string, width int, m ImportMode) (cid.Cid, uint64, error) {
	spl, err := chunk.FromString(r, chunker)
	if err != nil {
		return cid.Undef, 0, err
	}
	var cb cid.Builder = cid.V0Builder{}
	if m.CidV1 {
		cb = V1Builder
	}
	if m.Inline > 0 {
		cb = inlineBuilder{b: cb, limit: m.Inline}
	}
	p := helpers.DagBuilderParams{Maxlinks: width, RawLeaves: m.RawLeaves, CidBuilder: cb, Dagserv: &DagServ{st}}
	db, err := p.New(spl)
	if err != nil {
		return cid.Undef, 0, err
	}
	var nd format.Node
	if m.Layout == "trickle" {
		nd, err = trickle.Layout(db)
	} else {
		nd, err = balanced.Layout(db)
	}
	if err != nil {
		return cid.Undef, 0, err
	}
	sz, err := nd.Size()
	if err != nil {
		return cid.Undef, 0, err
	}
	return nd.Cid(), sz, nil
}

// RefBalanced is the configuration C07 compares against: balanced layout, raw
// leaves, CIDv1.
func RefBalanced(st *store.Store, content []byte, chunker string, width int) (cid.Cid, uint64, error) {
	return RefImport(st, bytes.NewReader(content), chunker, width, ImportMode{Layout: "balanced", RawLeaves: true, CidV1: true})
}

// RefShard wraps a boxo HAMT shard writing into st.
type RefShard struct {
	S   *bhamt.Shard
	ds  *DagServ
	ctx context.Context
}

func NewRefShard(st *store.Store, fanout int) (*RefShard, error) {
	ds := &DagServ{st}
	s, err := bhamt.NewShard(ds, fanout)
	if err != nil {
		return nil, err
	}
	s.SetCidBuilder(V1Builder)
	return &RefShard{S: s, ds: ds, ctx: context.Background()}, nil
}

func (r *RefShard) Set(name string, c cid.Cid, size uint64) error {
	return r.S.SetLink(r.ctx, name, &format.Link{Name: name, Size: size, Cid: c})
}

func (r *RefShard) Remove(name string) error { return r.S.Remove(r.ctx, name) }

// Node serialises the shard (storing all dirty blocks) and returns root + size.
func (r *RefShard) Node() (cid.Cid, uint64, error) {
	nd, err := r.S.Node()
	if err != nil {
		return cid.Undef, 0, err
	}
	// boxo adds child shards to the DAG service while serialising but leaves
	// the root to the caller.
	if err := r.ds.Add(r.ctx, nd); err != nil {
		return cid.Undef, 0, err
	}
	sz, err := nd.Size()
	if err != nil {
		return cid.Undef, 0, err
	}
	return nd.Cid(), sz, nil
}

func (r *RefShard) Enum() (map[string]cid.Cid, error) {
	ls, err := r.S.EnumLinks(r.ctx)
	if err != nil {
		return nil, err
	}
	out := map[string]cid.Cid{}
	for _, l := range ls {
		out[l.Name] = l.Cid
	}
	return out, nil
}
