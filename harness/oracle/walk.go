// Package oracle holds the independent side of the monitors: a DAG walker that
// decodes blocks with go-codec-dagpb and gogo-protobuf (never with the decoder
// under test), small executable models, and adapters to the boxo reference
// implementations.
package oracle

import (
	"bytes"
	"encoding/binary"
	"fmt"
	"math/bits"

	"github.com/gogo/protobuf/proto"
	pb "github.com/ipfs/boxo/ipld/unixfs/pb"
	"github.com/ipfs/go-cid"
	dagpb "github.com/ipld/go-codec-dagpb"
	cidlink "github.com/ipld/go-ipld-prime/linking/cid"
	"github.com/spaolacci/murmur3"
)

type Getter func(c cid.Cid) ([]byte, bool)

type Link struct {
	Name    string
	HasName bool
	Tsize   uint64
	HasSize bool
	Cid     cid.Cid
}

type Node struct {
	Cid     cid.Cid
	Raw     []byte
	IsPB    bool
	Links   []Link
	Data    []byte
	HasData bool
	FS      *pb.Data // nil if Data is absent or not decodable by gogo
}

// Decode decodes one block independently of the library under test.
func Decode(c cid.Cid, raw []byte) (*Node, error) {
	n := &Node{Cid: c, Raw: raw}
	if c.Prefix().Codec != cid.DagProtobuf {
		return n, nil
	}
	n.IsPB = true
	nb := dagpb.Type.PBNode.NewBuilder()
	if err := dagpb.DecodeBytes(nb, raw); err != nil {
		return nil, err
	}
	pn := nb.Build().(dagpb.PBNode)
	it := pn.Links.Iterator()
	for !it.Done() {
		_, l := it.Next()
		var ol Link
		ol.Cid = l.Hash.Link().(cidlink.Link).Cid
		if l.Name.Exists() {
			ol.HasName = true
			ol.Name = l.Name.Must().String()
		}
		if l.Tsize.Exists() {
			ol.HasSize = true
			ol.Tsize = uint64(l.Tsize.Must().Int())
		}
		n.Links = append(n.Links, ol)
	}
	if pn.Data.Exists() {
		n.HasData = true
		n.Data = pn.Data.Must().Bytes()
		var m pb.Data
		if err := proto.Unmarshal(n.Data, &m); err == nil && m.Type != nil {
			n.FS = &m
		}
	}
	return n, nil
}

type Walker struct {
	Get   Getter
	cache map[string]*Node
}

func NewWalker(g Getter) *Walker { return &Walker{Get: g, cache: map[string]*Node{}} }

func (w *Walker) Node(c cid.Cid) (*Node, error) {
	if n, ok := w.cache[c.KeyString()]; ok {
		return n, nil
	}
	raw, ok := w.Get(c)
	if !ok {
		return nil, fmt.Errorf("oracle: block %s not in store", c)
	}
	n, err := Decode(c, raw)
	if err != nil {
		return nil, fmt.Errorf("oracle: decode %s: %w", c, err)
	}
	w.cache[c.KeyString()] = n
	return n, nil
}

// Span is the byte range of file content beneath one block occurrence.
type Span struct {
	Cid        cid.Cid
	Start, End int64
	Depth      int
	Leaf       bool
	Path       []int // link indexes from the root
}

// FileSpans lists every block occurrence of a file DAG in depth-first link
// order with the byte span of content beneath it, and returns the content.
func (w *Walker) FileSpans(root cid.Cid) ([]Span, []byte, error) {
	var spans []Span
	var content bytes.Buffer
	var rec func(c cid.Cid, depth int, path []int) error
	rec = func(c cid.Cid, depth int, path []int) error {
		if depth > 64 {
			return fmt.Errorf("oracle: file DAG too deep")
		}
		n, err := w.Node(c)
		if err != nil {
			return err
		}
		idx := len(spans)
		start := int64(content.Len())
		spans = append(spans, Span{Cid: c, Start: start, Depth: depth, Path: append([]int(nil), path...)})
		if !n.IsPB {
			content.Write(n.Raw)
			spans[idx].Leaf = true
		} else if len(n.Links) == 0 {
			if n.FS != nil {
				content.Write(n.FS.Data)
			}
			spans[idx].Leaf = true
		} else {
			if n.FS != nil && len(n.FS.Data) > 0 {
				// inline data in an interior node precedes the children in go-unixfs;
				// the builders under test never produce it.
				content.Write(n.FS.Data)
			}
			for i, l := range n.Links {
				if err := rec(l.Cid, depth+1, append(path, i)); err != nil {
					return err
				}
			}
		}
		spans[idx].End = int64(content.Len())
		return nil
	}
	if err := rec(root, 0, nil); err != nil {
		return nil, nil, err
	}
	return spans, content.Bytes(), nil
}

// TreeSize is the encoded length of the block plus the tree sizes of
// everything it links to, counted with multiplicity.
func (w *Walker) TreeSize(root cid.Cid) (uint64, error) {
	memo := map[string]uint64{}
	var rec func(c cid.Cid, depth int) (uint64, error)
	rec = func(c cid.Cid, depth int) (uint64, error) {
		if v, ok := memo[c.KeyString()]; ok {
			return v, nil
		}
		if depth > 64 {
			return 0, fmt.Errorf("oracle: DAG too deep")
		}
		n, err := w.Node(c)
		if err != nil {
			return 0, err
		}
		total := uint64(len(n.Raw))
		for _, l := range n.Links {
			s, err := rec(l.Cid, depth+1)
			if err != nil {
				return 0, err
			}
			total += s
		}
		memo[c.KeyString()] = total
		return total, nil
	}
	return rec(root, 0)
}

// DFS lists the distinct blocks reachable from root in depth-first link order
// (first occurrence), following only links for which follow returns true.
func (w *Walker) DFS(root cid.Cid, follow func(parent *Node, l Link) bool) ([]cid.Cid, error) {
	seen := map[string]bool{}
	var out []cid.Cid
	var rec func(c cid.Cid, depth int) error
	rec = func(c cid.Cid, depth int) error {
		if depth > 64 {
			return fmt.Errorf("oracle: DAG too deep")
		}
		if !seen[c.KeyString()] {
			seen[c.KeyString()] = true
			out = append(out, c)
		}
		n, err := w.Node(c)
		if err != nil {
			return err
		}
		for _, l := range n.Links {
			if follow == nil || follow(n, l) {
				if err := rec(l.Cid, depth+1); err != nil {
					return err
				}
			}
		}
		return nil
	}
	if err := rec(root, 0); err != nil {
		return nil, err
	}
	return out, nil
}

// PadLen is the width of the hex index prefix of link names in a shard.
func PadLen(fanout uint64) int { return len(fmt.Sprintf("%X", fanout-1)) }

// IsShardLink tells whether l, found in HAMT shard parent, points to a child
// shard (name is exactly the index prefix) rather than to an entry.
func IsShardLink(parent *Node, l Link) bool {
	if parent.FS == nil || parent.FS.GetType() != pb.Data_HAMTShard {
		return false
	}
	return l.HasName && len(l.Name) == PadLen(parent.FS.GetFanout())
}

type HamtEntry struct {
	Name  string
	Cid   cid.Cid
	Tsize uint64
	Shard cid.Cid // the shard block holding the value link
	Depth int
}

// HamtWalk lists the entries of a sharded directory in depth-first link order
// and the shard blocks (distinct, DFS order, root first).
func (w *Walker) HamtWalk(root cid.Cid) (entries []HamtEntry, shards []cid.Cid, maxDepth int, err error) {
	seen := map[string]bool{}
	var rec func(c cid.Cid, depth int) error
	rec = func(c cid.Cid, depth int) error {
		if depth > 64 {
			return fmt.Errorf("oracle: hamt too deep")
		}
		n, e := w.Node(c)
		if e != nil {
			return e
		}
		if n.FS == nil || n.FS.GetType() != pb.Data_HAMTShard {
			return fmt.Errorf("oracle: %s is not a HAMT shard", c)
		}
		if !seen[c.KeyString()] {
			seen[c.KeyString()] = true
			shards = append(shards, c)
		}
		if depth > maxDepth {
			maxDepth = depth
		}
		pad := PadLen(n.FS.GetFanout())
		for _, l := range n.Links {
			if !l.HasName || len(l.Name) < pad {
				return fmt.Errorf("oracle: bad hamt link name %q", l.Name)
			}
			if len(l.Name) == pad {
				if e := rec(l.Cid, depth+1); e != nil {
					return e
				}
			} else {
				entries = append(entries, HamtEntry{Name: l.Name[pad:], Cid: l.Cid, Tsize: l.Tsize, Shard: c, Depth: depth})
			}
		}
		return nil
	}
	err = rec(root, 0)
	return
}

// Hash64 is murmur3-x64-64 of the name as the 8 big-endian bytes both HAMT
// implementations consume.
func Hash64(name string) uint64 {
	return murmur3.Sum64([]byte(name))
}

// SliceBits is the oracle's own bit slicing: bits [off, off+width) of the
// 64-bit hash, most significant bit first.
func SliceBits(h uint64, off, width int) (int, bool) {
	if off+width > 64 || width <= 0 {
		return 0, false
	}
	return int((h << uint(off)) >> uint(64-width)), true
}

// HashPath returns the bucket index at every level for a name.
func HashPath(name string, fanout int) []int {
	lg := bits.TrailingZeros(uint(fanout))
	h := Hash64(name)
	var out []int
	for off := 0; off+lg <= 64; off += lg {
		v, _ := SliceBits(h, off, lg)
		out = append(out, v)
	}
	return out
}

func HashBytes(name string) []byte {
	var b [8]byte
	binary.BigEndian.PutUint64(b[:], Hash64(name))
	return b[:]
}

// HamtLookupPath returns the shard blocks an ideal lookup of name must load
// (excluding the root, which the caller already holds) and the entry if found.
func (w *Walker) HamtLookupPath(root cid.Cid, name string) (loads []cid.Cid, found *HamtEntry, err error) {
	c := root
	h := Hash64(name)
	off := 0
	for depth := 0; ; depth++ {
		n, e := w.Node(c)
		if e != nil {
			return loads, nil, e
		}
		if n.FS == nil || n.FS.GetType() != pb.Data_HAMTShard {
			return loads, nil, fmt.Errorf("oracle: %s is not a HAMT shard", c)
		}
		fan := n.FS.GetFanout()
		lg := bits.TrailingZeros64(fan)
		idx, ok := SliceBits(h, off, lg)
		if !ok {
			return loads, nil, nil
		}
		off += lg
		pad := PadLen(fan)
		prefix := fmt.Sprintf("%0*X", pad, idx)
		var next *Link
		for i := range n.Links {
			l := &n.Links[i]
			if l.HasName && len(l.Name) >= pad && l.Name[:pad] == prefix {
				next = l
				break
			}
		}
		if next == nil {
			return loads, nil, nil
		}
		if len(next.Name) == pad {
			loads = append(loads, next.Cid)
			c = next.Cid
			continue
		}
		if next.Name[pad:] == name {
			return loads, &HamtEntry{Name: name, Cid: next.Cid, Tsize: next.Tsize, Shard: c, Depth: depth}, nil
		}
		return loads, nil, nil
	}
}
