package gen

import (
	"math/rand"

	"github.com/gogo/protobuf/proto"
	pb "github.com/ipfs/boxo/ipld/unixfs/pb"
)

// HostileData returns an adversarial UnixFS Data payload and a label of the
// mutation class that produced it.
func HostileData(r *rand.Rand, nlinks int) ([]byte, bool, string) {
	switch r.Intn(14) {
	case 0:
		return nil, false, "no-data"
	case 1:
		return []byte{}, true, "empty-data"
	case 2:
		b := make([]byte, 1+r.Intn(12))
		r.Read(b)
		return b, true, "garbage-data"
	}
	types := []int32{0, 1, 2, 3, 4, 5, 5, 5, 2, 2, 6, 99, -1}
	t := pb.Data_DataType(types[r.Intn(len(types))])
	m := &pb.Data{Type: &t}
	class := "type" + t.String()
	big := []uint64{0, 1, 2, 7, 8, 100, 1 << 20, 1 << 31, 1 << 32, 1<<62 + 5, 1 << 63, ^uint64(0)}
	if r.Intn(2) == 0 {
		d := make([]byte, r.Intn(20))
		r.Read(d)
		m.Data = d
		if r.Intn(4) == 0 {
			m.Data = []byte{}
		}
	}
	if r.Intn(3) != 0 {
		m.Filesize = proto.Uint64(big[r.Intn(len(big))])
	}
	switch r.Intn(5) {
	case 0: // absent
	case 1: // right count, arbitrary values
		for i := 0; i < nlinks; i++ {
			m.Blocksizes = append(m.Blocksizes, big[r.Intn(len(big))])
		}
	case 2: // too few
		for i := 0; i < nlinks/2; i++ {
			m.Blocksizes = append(m.Blocksizes, uint64(r.Intn(10)))
		}
	case 3: // too many
		for i := 0; i < nlinks+1+r.Intn(3); i++ {
			m.Blocksizes = append(m.Blocksizes, uint64(r.Intn(10)))
		}
	case 4: // small plausible
		for i := 0; i < nlinks; i++ {
			m.Blocksizes = append(m.Blocksizes, uint64(r.Intn(8)))
		}
	}
	if t == pb.Data_HAMTShard || r.Intn(6) == 0 {
		class += "+hamt"
		switch r.Intn(8) {
		case 0:
		case 1:
			m.HashType = proto.Uint64(uint64(r.Intn(100)))
		default:
			m.HashType = proto.Uint64(0x22)
		}
		fans := []uint64{0, 1, 2, 3, 4, 8, 8, 8, 16, 16, 32, 64, 256, 1024, 2048, 1 << 20, 1 << 62, 1 << 63, ^uint64(0), 12, 24}
		if r.Intn(10) != 0 {
			m.Fanout = proto.Uint64(fans[r.Intn(len(fans))])
		}
		// bitfield: right length, longer, shorter, empty, all ones, random
		fl := 1
		if m.Fanout != nil && *m.Fanout >= 8 && *m.Fanout <= 4096 {
			fl = int(*m.Fanout / 8)
		}
		var bf []byte
		switch r.Intn(7) {
		case 0:
			bf = nil
		case 1:
			bf = make([]byte, fl+1+r.Intn(4))
			r.Read(bf)
			class += "+bf-long"
		case 2:
			bf = make([]byte, r.Intn(fl+1))
			r.Read(bf)
			class += "+bf-short"
		case 3:
			bf = make([]byte, fl)
			for i := range bf {
				bf[i] = 0xff
			}
			class += "+bf-ones"
		case 4:
			bf = []byte{}
		default:
			bf = make([]byte, fl)
			r.Read(bf)
		}
		if len(bf) > 0 {
			// runs of zero bytes at either end (writers differ in trimming them)
			switch r.Intn(6) {
			case 0:
				for i := r.Intn(len(bf)); i >= 0; i-- {
					bf[i] = 0
				}
				class += "+bf-leadzero"
			case 1:
				for i := r.Intn(len(bf)); i < len(bf); i++ {
					bf[i] = 0
				}
			}
		}
		if r.Intn(8) != 0 {
			m.Data = bf
		} else {
			m.Data = nil
		}
	}
	if r.Intn(8) == 0 {
		m.Mode = proto.Uint32(r.Uint32())
	}
	if r.Intn(10) == 0 {
		s := r.Int63() - r.Int63()
		m.Mtime = &pb.IPFSTimestamp{Seconds: &s}
	}
	b, err := proto.Marshal(m)
	if err != nil {
		return nil, false, "no-data"
	}
	if r.Intn(12) == 0 && len(b) > 1 {
		b = b[:r.Intn(len(b))]
		class += "+truncated"
	}
	return b, true, class
}

// HostileName returns an adversarial link name (nil = absent).
func HostileName(r *rand.Rand, i int) *string {
	var s string
	switch r.Intn(16) {
	case 9:
		// multi-byte and invalid UTF-8 where the hex prefix belongs: more bytes than characters
		s = []string{"\uFB00", "\u65E5a", "\U0001F600", "\u00e9", "\u00e9a", "0\u00e9", "\xff\xfe\xfd", "0\xff", "A\u0301x", "\xe6\x97", "\u00e9\u00e9\u00e9x", "0\U0001F600n"}[r.Intn(12)]
	case 10:
		b := make([]byte, 1+r.Intn(5))
		r.Read(b)
		s = string(b)
	case 0:
		return nil
	case 1:
		s = ""
	case 2:
		s = "0"
	case 3:
		s = []string{"00", "01", "0A", "FF", "7f", "zz"}[r.Intn(6)]
	case 4:
		s = []string{"000", "001", "3FF", "1ff", "xyz"}[r.Intn(5)]
	case 5:
		s = []string{"0a", "1file", "Ax", "ZZname", "\x00\x01"}[r.Intn(5)]
	case 6:
		s = "00name" + string(rune('a'+i%26))
	case 7:
		s = "000entry" + string(rune('a'+i%26))
	case 8:
		s = "dup"
	default:
		hex := "0123456789ABCDEF"
		pad := 1 + r.Intn(3)
		b := make([]byte, pad)
		for j := range b {
			b[j] = hex[r.Intn(16)]
		}
		s = string(b)
		if r.Intn(2) == 0 {
			s += "n" + string(rune('a'+i%26))
		}
	}
	return &s
}
