package gen

import (
	"math/rand"
	"testing"

	"github.com/spaolacci/murmur3"
)

func TestCraftAround(t *testing.T) {
	r := rand.New(rand.NewSource(3))
	for i := 0; i < 3000; i++ {
		prefix := make([]byte, 16*r.Intn(4))
		r.Read(prefix)
		tail := make([]byte, r.Intn(16))
		r.Read(tail)
		tg := r.Uint64()
		n := CraftAround(prefix, tail, tg, r.Uint64())
		if murmur3.Sum64([]byte(n)) != tg || len(n) != len(prefix)+16+len(tail) {
			t.Fatalf("mismatch")
		}
	}
}
