// Package gen holds the seeded generators: names (incl. murmur3 pre-images
// that force deep HAMTs), file contents, protobuf presentations, hostile DAGs.
package gen

import (
	"encoding/binary"
	"fmt"
	"math/bits"
	"math/rand"

	"github.com/spaolacci/murmur3"
)

const (
	c1 = 0x87c37b91114253d5
	c2 = 0x4cf5ad432745937f
)

func modinv(a uint64) uint64 { // inverse of odd a mod 2^64 (Newton)
	x := a
	for i := 0; i < 6; i++ {
		x *= 2 - a*x
	}
	return x
}

func unxorshift(x uint64, s uint) uint64 {
	r := x
	for i := s; i < 64; i += s {
		r = x ^ (r >> s)
	}
	return r
}

func unfmix(k uint64) uint64 {
	k = unxorshift(k, 33)
	k *= modinv(0xc4ceb9fe1a85ec53)
	k = unxorshift(k, 33)
	k *= modinv(0xff51afd7ed558ccd)
	k = unxorshift(k, 33)
	return k
}

// Craft16 returns a 16-byte name whose murmur3-x64-64 (seed 0) equals target;
// free selects one of the 2^64 pre-images. The result is verified against the
// real hash function; a mismatch is a harness bug and panics.
func Craft16(target, free uint64) string {
	b := free
	a := target - b
	h1 := unfmix(a)
	h2 := unfmix(b)
	h2 -= h1
	h1 -= h2
	h1 ^= 16
	h2 ^= 16
	x2 := (h2 - 0x38495ab5) * modinv(5)
	x2 -= h1
	x2 = bits.RotateLeft64(x2, -31)
	x1 := (h1 - 0x52dce729) * modinv(5)
	x1 = bits.RotateLeft64(x1, -27)
	k1 := bits.RotateLeft64(x1*modinv(c2), -31) * modinv(c1)
	k2 := bits.RotateLeft64(x2*modinv(c1), -33) * modinv(c2)
	out := make([]byte, 16)
	binary.LittleEndian.PutUint64(out[0:], k1)
	binary.LittleEndian.PutUint64(out[8:], k2)
	if murmur3.Sum64(out) != target {
		panic(fmt.Sprintf("gen.Craft16 self-check failed for target %x", target))
	}
	return string(out)
}

func rotl(x uint64, r int) uint64 { return bits.RotateLeft64(x, r) }

// CraftAround returns prefix + B + tail, where B is a 16-byte block chosen so
// that the murmur3-x64-64 hash of the whole name equals target. prefix must be
// a multiple of 16 bytes long, tail shorter than 16 bytes; free selects one of
// the 2^64 solutions. Verified against the real hash function.
func CraftAround(prefix, tail []byte, target, free uint64) string {
	if len(prefix)%16 != 0 || len(tail) >= 16 {
		panic("gen.CraftAround: bad prefix/tail length")
	}
	// forward over the prefix blocks
	var s1, s2 uint64
	for i := 0; i+16 <= len(prefix); i += 16 {
		k1 := binary.LittleEndian.Uint64(prefix[i:])
		k2 := binary.LittleEndian.Uint64(prefix[i+8:])
		k1 *= c1
		k1 = rotl(k1, 31)
		k1 *= c2
		s1 ^= k1
		s1 = rotl(s1, 27)
		s1 += s2
		s1 = s1*5 + 0x52dce729
		k2 *= c2
		k2 = rotl(k2, 33)
		k2 *= c1
		s2 ^= k2
		s2 = rotl(s2, 31)
		s2 += s1
		s2 = s2*5 + 0x38495ab5
	}
	total := uint64(len(prefix) + 16 + len(tail))
	// backward from the target through finalisation
	b := free
	a := target - b
	h1 := unfmix(a)
	h2 := unfmix(b)
	h2 -= h1
	h1 -= h2
	h1 ^= total
	h2 ^= total
	// undo the tail
	var t [16]byte
	copy(t[:], tail)
	if len(tail) > 8 {
		k2 := binary.LittleEndian.Uint64(t[8:])
		k2 *= c2
		k2 = rotl(k2, 33)
		k2 *= c1
		h2 ^= k2
	}
	if len(tail) > 0 {
		k1 := binary.LittleEndian.Uint64(t[:8])
		k1 *= c1
		k1 = rotl(k1, 31)
		k1 *= c2
		h1 ^= k1
	}
	// (h1,h2) is the state after block B; invert the block round from state (s1,s2)
	x2 := (h2 - 0x38495ab5) * modinv(5)
	x2 -= h1
	x2 = rotl(x2, -31)
	x2 ^= s2 // = mix2(k2)
	y1 := (h1 - 0x52dce729) * modinv(5)
	y1 -= s2
	y1 = rotl(y1, -27)
	y1 ^= s1 // = mix1(k1)
	k1 := rotl(y1*modinv(c2), -31) * modinv(c1)
	k2 := rotl(x2*modinv(c1), -33) * modinv(c2)
	out := make([]byte, 0, int(total))
	out = append(out, prefix...)
	var blk [16]byte
	binary.LittleEndian.PutUint64(blk[0:], k1)
	binary.LittleEndian.PutUint64(blk[8:], k2)
	out = append(out, blk[:]...)
	out = append(out, tail...)
	if murmur3.Sum64(out) != target {
		panic(fmt.Sprintf("gen.CraftAround self-check failed for target %x (prefix %d tail %d)", target, len(prefix), len(tail)))
	}
	return string(out)
}

// SharedPrefixNames returns n distinct 16-byte names whose 64-bit hashes all
// share their first `shared` bits (0 <= shared <= 63); the first two differ at
// bit `shared`, so a HAMT consuming lg bits per level is forced to depth
// shared/lg + 1 exactly.
func SharedPrefixNames(r *rand.Rand, n, shared int) []string {
	var mask uint64
	if shared > 0 {
		mask = ^uint64(0) << uint(64-shared)
	}
	base := r.Uint64()
	seen := map[uint64]bool{}
	var hashes []uint64
	var out []string
	for len(out) < n {
		h := base&mask | r.Uint64()&^mask
		if len(out) == 1 {
			bit := uint64(1) << uint(63-shared)
			h = (h &^ bit) | (^hashes[0] & bit)
		}
		if seen[h] {
			// when fewer than n distinct hashes exist under the prefix, fall back
			// to full 64-bit collisions (distinct names, same hash)
			if shared < 56 || len(seen) < 1<<uint(64-shared) {
				continue
			}
		}
		seen[h] = true
		hashes = append(hashes, h)
		out = append(out, Craft16(h, r.Uint64()))
	}
	return out
}

// CollidingNames returns n distinct names with the identical 64-bit hash.
func CollidingNames(r *rand.Rand, n int) []string {
	h := r.Uint64()
	out := make([]string, n)
	for i := range out {
		out[i] = Craft16(h, r.Uint64())
	}
	return out
}

var alphabet = []rune("abcdefghijklmnopqrstuvwxyzABCDEFGHIJKLMNOPQRSTUVWXYZ0123456789 %._-~!@#$^&()+=[]{},;'äßçπ日本語😀́ ")

// Name families.
const (
	FamASCII = iota
	FamMixed
	FamHexPrefix
	FamLegacy
	FamLong
	FamSingle
	FamNumeric
	FamVeryLong
	FamBadUTF8
	NumFamilies
)

func FamilyName(f int) string {
	return [...]string{"ascii", "mixed", "hexprefix", "legacy", "long", "single", "numeric", "verylong", "badutf8"}[f]
}

// Names returns n distinct non-empty names of the given family.
func Names(r *rand.Rand, fam, n int) []string {
	seen := map[string]bool{}
	out := make([]string, 0, n)
	for i := 0; len(out) < n; i++ {
		var s string
		switch fam {
		case FamASCII:
			s = fmt.Sprintf("f%d-%x", i, r.Uint32())
		case FamMixed:
			l := 1 + r.Intn(24)
			rs := make([]rune, l)
			for j := range rs {
				rs[j] = alphabet[r.Intn(len(alphabet))]
			}
			s = string(rs)
		case FamHexPrefix:
			pre := []string{"0A", "FF", "3E8", "00", "1F", "A", "0", "000", "FFF", "7f"}[r.Intn(10)]
			if r.Intn(4) == 0 {
				s = pre
			} else {
				s = pre + fmt.Sprintf("n%d", r.Intn(1<<20))
			}
		case FamLegacy:
			if i%2 == 0 {
				s = fmt.Sprintf("DIRNAME%d", i)
			} else {
				s = fmt.Sprintf("file %d", i)
			}
		case FamLong:
			b := make([]byte, 220)
			for j := range b {
				b[j] = "abcdefghijklmnopqrstuvwxyz"[r.Intn(26)]
			}
			copy(b, fmt.Sprintf("%08d-", i))
			s = string(b)
		case FamNumeric:
			switch r.Intn(4) {
			case 0:
				s = fmt.Sprint(i)
			case 1:
				s = fmt.Sprintf("%03d", r.Intn(1000))
			case 2:
				s = fmt.Sprint(1990 + r.Intn(100))
			default:
				s = fmt.Sprint(r.Int63())
			}
		case FamBadUTF8:
			// names that are not valid UTF-8 and differ only inside the invalid bytes (legal link names)
			base := []string{"caf", "na\xefve-", "", "x"}[i%4]
			bad := []string{"\xe9", "\xe8", "\x80", "\xff", "\xc3", "\xe2\x82", "\xf0\x9f", "\xed\xa0\x80", "\xc0\xaf"}[(i/4)%9]
			s = base + bad + []string{"", ".txt", "\xfe"}[(i/36)%3]
			if i >= 108 {
				s += fmt.Sprint(i)
			}
		case FamVeryLong:
			// longer than any filesystem allows: 256, 257, 300, 1000, 4096 bytes, sharing long prefixes
			l := []int{256, 257, 300, 1000, 4096, 255}[i%6]
			b := make([]byte, l)
			for j := range b {
				b[j] = 'v'
			}
			copy(b[l-12:], fmt.Sprintf("%012d", i))
			if r.Intn(2) == 0 {
				copy(b, fmt.Sprintf("%08x", r.Uint32()))
			}
			s = string(b)
		case FamSingle:
			s = string(alphabet[i%len(alphabet)])
			if i >= len(alphabet) {
				s += fmt.Sprint(i)
			}
		}
		if s == "" || seen[s] {
			continue
		}
		seen[s] = true
		out = append(out, s)
	}
	return out
}

// Content kinds.
func Content(r *rand.Rand, kind string, n int) []byte {
	b := make([]byte, n)
	switch kind {
	case "zero":
	case "period3":
		for i := range b {
			b[i] = byte('a' + i%3)
		}
	case "period8":
		for i := range b {
			b[i] = byte('A' + i%8)
		}
	default:
		r.Read(b)
	}
	return b
}
