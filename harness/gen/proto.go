package gen

import (
	"math/rand"
)

// Msg is a logical UnixFS Data message.
type Msg struct {
	Type       uint64
	Data       []byte
	HasData    bool
	FileSize   *uint64
	BlockSizes []uint64
	HashType   *uint64
	Fanout     *uint64
	Mode       *uint32
	Mtime      *Time
}

type Time struct {
	Seconds int64
	Nanos   *uint32
}

// Presentation options for the wire writer.
type Pres struct {
	Kind       string // ordered | reversed | permuted
	Packed     bool   // block sizes as one packed run
	Interleave bool   // unpacked block sizes interleaved with other fields
	Unknown    int    // number of unknown fields to insert
	NonMinimal bool   // over-long varints for values, lengths and tags
	UnknownInT bool   // unknown fields inside the mtime sub-message as well
	EmptyRun   bool   // with Packed: an empty block-size list is written as a packed run of length zero
}

func (p Pres) Class() string {
	s := p.Kind
	if p.Packed {
		s += "+packed"
	}
	if p.EmptyRun {
		s += "+emptyrun"
	}
	if p.Interleave {
		s += "+interleaved"
	}
	if p.Unknown > 0 {
		s += "+unknown"
	}
	if p.NonMinimal {
		s += "+nonminimal"
	}
	return s
}

type wire struct {
	r  *rand.Rand
	nm bool
}

func (w *wire) varint(v uint64) []byte {
	var b []byte
	for v >= 0x80 {
		b = append(b, byte(v)|0x80)
		v >>= 7
	}
	b = append(b, byte(v))
	if w.nm && len(b) < 9 && w.r.Intn(3) == 0 {
		b[len(b)-1] |= 0x80
		b = append(b, 0x00)
	}
	return b
}

func (w *wire) tag(num int, wt int) []byte { return w.varint(uint64(num)<<3 | uint64(wt)) }

func (w *wire) vfield(num int, v uint64) []byte { return append(w.tag(num, 0), w.varint(v)...) }

func (w *wire) bfield(num int, b []byte) []byte {
	out := append(w.tag(num, 2), w.varint(uint64(len(b)))...)
	return append(out, b...)
}

func (w *wire) unknown() []byte {
	num := []int{9, 10, 15, 16, 100, 1<<29 - 1}[w.r.Intn(6)]
	switch w.r.Intn(5) {
	case 0:
		return w.vfield(num, w.r.Uint64())
	case 1:
		b := w.tag(num, 1)
		for i := 0; i < 8; i++ {
			b = append(b, byte(w.r.Intn(256)))
		}
		return b
	case 2:
		d := make([]byte, w.r.Intn(6))
		w.r.Read(d)
		return w.bfield(num, d)
	case 3:
		// group: start tag, one inner varint field, end tag
		b := w.tag(num, 3)
		b = append(b, w.vfield(1, uint64(w.r.Intn(300)))...)
		return append(b, w.tag(num, 4)...)
	}
	b := w.tag(num, 5)
	for i := 0; i < 4; i++ {
		b = append(b, byte(w.r.Intn(256)))
	}
	return b
}

// EncodeTime renders a timestamp message.
func EncodeTime(r *rand.Rand, t Time, p Pres) []byte {
	w := &wire{r: r, nm: p.NonMinimal}
	fs := [][]byte{w.vfield(1, uint64(t.Seconds))}
	if t.Nanos != nil {
		b := w.tag(2, 5)
		n := *t.Nanos
		b = append(b, byte(n), byte(n>>8), byte(n>>16), byte(n>>24))
		fs = append(fs, b)
	}
	if p.UnknownInT {
		for i := 0; i < 1+r.Intn(2); i++ {
			fs = append(fs, w.unknown())
		}
	}
	order(r, fs, p.Kind)
	return join(fs)
}

func order(r *rand.Rand, fs [][]byte, kind string) {
	switch kind {
	case "reversed":
		for i, j := 0, len(fs)-1; i < j; i, j = i+1, j-1 {
			fs[i], fs[j] = fs[j], fs[i]
		}
	case "permuted":
		r.Shuffle(len(fs), func(i, j int) { fs[i], fs[j] = fs[j], fs[i] })
	}
}

func join(fs [][]byte) []byte {
	var out []byte
	for _, f := range fs {
		out = append(out, f...)
	}
	return out
}

// Encode renders the logical message in the given presentation. All outputs
// are encodings a conformant protobuf encoder may emit for this message.
func Encode(r *rand.Rand, m Msg, p Pres) []byte {
	w := &wire{r: r, nm: p.NonMinimal}
	var fs [][]byte
	fs = append(fs, w.vfield(1, m.Type))
	if m.HasData {
		fs = append(fs, w.bfield(2, m.Data))
	}
	if m.FileSize != nil {
		fs = append(fs, w.vfield(3, *m.FileSize))
	}
	var bs [][]byte
	if p.Packed {
		var run []byte
		for _, v := range m.BlockSizes {
			run = append(run, w.varint(v)...)
		}
		if len(m.BlockSizes) > 0 || p.EmptyRun {
			fs = append(fs, w.bfield(4, run))
		}
	} else {
		for _, v := range m.BlockSizes {
			bs = append(bs, w.vfield(4, v))
		}
		if !p.Interleave {
			fs = append(fs, join(bs))
			bs = nil
		}
	}
	if m.HashType != nil {
		fs = append(fs, w.vfield(5, *m.HashType))
	}
	if m.Fanout != nil {
		fs = append(fs, w.vfield(6, *m.Fanout))
	}
	if m.Mode != nil {
		fs = append(fs, w.vfield(7, uint64(*m.Mode)))
	}
	if m.Mtime != nil {
		fs = append(fs, w.bfield(8, EncodeTime(r, *m.Mtime, p)))
	}
	for i := 0; i < p.Unknown; i++ {
		fs = append(fs, w.unknown())
	}
	order(r, fs, p.Kind)
	if len(bs) > 0 {
		// insert the unpacked block sizes, in order, at random positions
		pos := make([]int, len(bs))
		for i := range pos {
			pos[i] = r.Intn(len(fs) + 1)
		}
		// sort positions ascending keeping block-size order
		for i := 1; i < len(pos); i++ {
			for j := i; j > 0 && pos[j] < pos[j-1]; j-- {
				pos[j], pos[j-1] = pos[j-1], pos[j]
			}
		}
		var out [][]byte
		k := 0
		for i := 0; i <= len(fs); i++ {
			for k < len(pos) && pos[k] == i {
				out = append(out, bs[k])
				k++
			}
			if i < len(fs) {
				out = append(out, fs[i])
			}
		}
		fs = out
	}
	return join(fs)
}

func U64(v uint64) *uint64 { return &v }
func U32(v uint32) *uint32 { return &v }
