// Package mon is the bookkeeping side of the runtime monitors: sharded case
// lists, per-case seeds, JSONL records of what the monitors observed,
// three-valued verdicts and panic attribution.
package mon

import (
	"encoding/json"
	"fmt"
	"hash/fnv"
	"math/rand"
	"os"
	"regexp"
	"runtime"
	"sort"
	"strconv"
	"strings"
	"sync"
	"testing"
	"time"
)

const LibPath = "github.com/ipfs/go-unixfsnode"

type Run struct {
	T        *testing.T
	Prop     string
	Tier     string
	Seed     uint64
	ShardI   int
	ShardN   int
	ReplayID string
	Reverse  bool // VERIF_ORDER=reverse: tests that support it enumerate their case list backwards

	mu      sync.Mutex
	out     *os.File
	idx     int
	samples int
	ran     int
}

func envInt(k string, d int) int {
	if v := os.Getenv(k); v != "" {
		if n, err := strconv.Atoi(v); err == nil {
			return n
		}
	}
	return d
}

// Start opens the record stream for one property worker.
func Start(t *testing.T, prop string) *Run {
	r := &Run{T: t, Prop: prop, Tier: os.Getenv("VERIF_TIER"), ShardN: 1}
	if r.Tier == "" {
		r.Tier = "quick"
	}
	if v := os.Getenv("VERIF_SEED"); v != "" {
		if n, err := strconv.ParseUint(v, 10, 64); err == nil {
			r.Seed = n
		} else if n, err := strconv.ParseInt(v, 10, 64); err == nil {
			r.Seed = uint64(n)
		}
	} else {
		r.Seed = 1
	}
	if v := os.Getenv("VERIF_SHARD"); v != "" {
		p := strings.SplitN(v, "/", 2)
		if len(p) == 2 {
			r.ShardI, _ = strconv.Atoi(p[0])
			r.ShardN, _ = strconv.Atoi(p[1])
			if r.ShardN < 1 {
				r.ShardN = 1
			}
		}
	}
	r.ReplayID = os.Getenv("VERIF_REPLAY_CASE")
	r.Reverse = os.Getenv("VERIF_ORDER") == "reverse"
	if path := os.Getenv("VERIF_OUT"); path != "" {
		f, err := os.OpenFile(path, os.O_CREATE|os.O_WRONLY|os.O_APPEND, 0o644)
		if err != nil {
			t.Fatalf("VERIF_OUT: %v", err)
		}
		r.out = f
	}
	r.emit(map[string]any{"t": "worker-start", "property": prop, "tier": r.Tier, "seed": r.Seed, "shard": fmt.Sprintf("%d/%d", r.ShardI, r.ShardN), "pid": os.Getpid(), "replay": r.ReplayID})
	return r
}

func (r *Run) Quick() bool { return r.Tier != "thorough" }

// Pick returns q in the quick tier and th in the thorough tier.
func (r *Run) Pick(q, th int) int {
	if r.Quick() {
		return q
	}
	return th
}

func (r *Run) emit(m map[string]any) {
	b, err := json.Marshal(m)
	if err != nil {
		b, _ = json.Marshal(map[string]any{"t": "harness-error", "why": "unmarshalable record: " + err.Error()})
	}
	b = append(b, '\n')
	r.mu.Lock()
	defer r.mu.Unlock()
	if r.out != nil {
		r.out.Write(b)
	} else if testing.Verbose() {
		os.Stdout.Write(b)
	}
}

// Close writes the end-of-worker record; a worker log without it means the
// process died.
func (r *Run) Close() {
	r.emit(map[string]any{"t": "worker-end", "cases_run": r.ran, "cases_listed": r.idx})
	if r.out != nil {
		r.out.Close()
	}
}

// HarnessError records a problem of the machinery itself (never a verdict
// about the library).
func (r *Run) HarnessError(why string) {
	r.emit(map[string]any{"t": "harness-error", "why": why})
}

func splitmix(x uint64) uint64 {
	x += 0x9e3779b97f4a7c15
	z := x
	z = (z ^ (z >> 30)) * 0xbf58476d1ce4e5b9
	z = (z ^ (z >> 27)) * 0x94d049bb133111eb
	return z ^ (z >> 31)
}

// SeedFor derives the per-case seed from the run seed and the case id.
func (r *Run) SeedFor(id string) uint64 {
	h := fnv.New64a()
	h.Write([]byte(id))
	return splitmix(splitmix(r.Seed) ^ h.Sum64())
}

type Case struct {
	r        *Run
	ID       string
	Seed     uint64
	rng      *rand.Rand
	counters map[string]int64
	sigs     map[string]bool
	viols    int
	op       string
	result   string
}

// Result records the outcome of the case as a string that must not depend on
// which other cases ran before it in the same process; the driver compares it
// across worker processes that enumerate the cases in different orders.
func (c *Case) Result(s string) { c.result = s }

// Case runs f as one case if it belongs to this worker's shard (or is the
// case being replayed). The case-start record, with the complete descriptor,
// is written before f runs, so that a crash is attributable.
func (r *Run) Case(id string, desc any, f func(c *Case)) {
	i := r.idx
	r.idx++
	if r.ReplayID != "" {
		if id != r.ReplayID {
			return
		}
	} else if i%r.ShardN != r.ShardI {
		return
	}
	r.ran++
	c := &Case{r: r, ID: id, Seed: r.SeedFor(id), counters: map[string]int64{}, sigs: map[string]bool{}}
	r.emit(map[string]any{"t": "case-start", "id": id, "seed": c.Seed, "desc": desc})
	t0 := time.Now()
	func() {
		defer func() {
			if p := recover(); p != nil {
				c.reportPanic("case", p)
			}
		}()
		f(c)
	}()
	sigs := make([]string, 0, len(c.sigs))
	nt := map[string]bool{}
	for s, n := range c.sigs {
		sigs = append(sigs, s)
		nt[s] = n
	}
	sort.Strings(sigs)
	ntl := make([]bool, len(sigs))
	for i, s := range sigs {
		ntl[i] = nt[s]
	}
	r.emit(map[string]any{"t": "case-end", "id": id, "ms": time.Since(t0).Milliseconds(), "sigs": sigs, "nontrivial": ntl, "counters": c.counters, "violations": c.viols, "result": c.result})
}

// Rand is the case's private PRNG (seed recorded in case-start).
func (c *Case) Rand() *rand.Rand {
	if c.rng == nil {
		c.rng = rand.New(rand.NewSource(int64(c.Seed)))
	}
	return c.rng
}

func (c *Case) Run() *Run { return c.r }

func (c *Case) Count(k string, n int64) { c.counters[k] += n }
func (c *Case) Max(k string, n int64) {
	if n > c.counters[k] {
		c.counters[k] = n
	}
}

// Sig records a coverage signature of this case (Appendix B of DESIGN.md).
func (c *Case) Sig(sig string, nontrivial bool) {
	if len(c.sigs) < 4096 {
		c.sigs[sig] = c.sigs[sig] || nontrivial
	}
}

// Sample writes an example of what the monitor saw (a few per worker).
func (c *Case) Sample(v any) {
	c.r.mu.Lock()
	n := c.r.samples
	c.r.samples++
	c.r.mu.Unlock()
	if n < 3 {
		c.r.emit(map[string]any{"t": "sample", "id": c.ID, "sample": v})
	}
}

// Violation records a refuting observation. key is the stable finding key:
// failure class plus minimal distinguishing parameters.
func (c *Case) Violation(key string, format string, args ...any) {
	c.viols++
	if c.viols > 20 {
		return
	}
	d := fmt.Sprintf(format, args...)
	if len(d) > 2000 {
		d = d[:2000] + "…"
	}
	c.r.emit(map[string]any{"t": "violation", "id": c.ID, "property": c.r.Prop, "key": key, "detail": d})
}

// Inconclusive records that the monitor could not decide this case.
func (c *Case) Inconclusive(format string, args ...any) {
	c.r.emit(map[string]any{"t": "inconclusive", "id": c.ID, "why": fmt.Sprintf(format, args...)})
}

// Harness records an inconsistency on the harness side (oracle disagreeing
// with itself, a reference refusing an input meant to be valid).
func (c *Case) Harness(format string, args ...any) {
	c.r.emit(map[string]any{"t": "harness-error", "id": c.ID, "why": fmt.Sprintf(format, args...)})
}

var numRe = regexp.MustCompile(`0x[0-9a-fA-F]+|\d+`)

// PanicSite returns the innermost library function on the current stack
// (call it from a deferred function that recovered).
func PanicSite() (site string, inLib bool, stack string) {
	pcs := make([]uintptr, 128)
	n := runtime.Callers(2, pcs)
	frames := runtime.CallersFrames(pcs[:n])
	var sb strings.Builder
	seenPanic := false
	for {
		fr, more := frames.Next()
		fn := fr.Function
		if sb.Len() < 4000 {
			fmt.Fprintf(&sb, "%s:%d\n", fn, fr.Line)
		}
		if strings.HasPrefix(fn, "runtime.gopanic") || strings.HasPrefix(fn, "runtime.panic") || strings.HasPrefix(fn, "runtime.sigpanic") || strings.HasPrefix(fn, "runtime.goPanic") {
			seenPanic = true
		} else if seenPanic && site == "" && strings.HasPrefix(fn, LibPath+"/") || seenPanic && site == "" && strings.HasPrefix(fn, LibPath+".") {
			site = strings.TrimPrefix(fn, LibPath)
			site = strings.TrimPrefix(site, "/")
			site = strings.TrimPrefix(site, ".")
			inLib = true
		}
		if !more {
			break
		}
	}
	return site, inLib, sb.String()
}

func (c *Case) reportPanic(op string, p any) {
	site, inLib, stack := PanicSite()
	msg := fmt.Sprint(p)
	class := numRe.ReplaceAllString(msg, "N")
	if len(class) > 80 {
		class = class[:80]
	}
	if !inLib {
		c.r.emit(map[string]any{"t": "harness-error", "id": c.ID, "why": "panic outside library frames during " + op + ": " + msg, "stack": stack})
		return
	}
	c.viols++
	c.r.emit(map[string]any{"t": "violation", "id": c.ID, "property": c.r.Prop, "key": c.r.Prop + "|panic|" + site, "detail": "panic during " + op + ": " + msg + " [" + class + "]", "stack": stack})
}

// Guard runs f under recover; a panic with a library frame on the stack is a
// violation keyed by the innermost library function, and Guard reports
// whether f completed.
func (c *Case) Guard(op string, f func()) (ok bool) {
	defer func() {
		if p := recover(); p != nil {
			c.reportPanic(op, p)
			ok = false
		}
	}()
	f()
	return true
}

// Perm returns a deterministic permutation helper.
func Shuffle[T any](r *rand.Rand, s []T) {
	r.Shuffle(len(s), func(i, j int) { s[i], s[j] = s[j], s[i] })
}
