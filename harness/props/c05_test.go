package props

import (
	"bytes"
	"fmt"
	"github.com/gogo/protobuf/proto"
	pb "github.com/ipfs/boxo/ipld/unixfs/pb"
	"io"
	"strings"
	"sync"
	"sync/atomic"
	"testing"

	"github.com/ipfs/go-cid"
	"github.com/ipfs/go-unixfsnode"
	"github.com/ipfs/go-unixfsnode/data/builder"
	"github.com/ipfs/go-unixfsnode/file"
	dagpb "github.com/ipld/go-codec-dagpb"
	"github.com/ipld/go-ipld-prime"
	"github.com/ipld/go-ipld-prime/datamodel"
	"github.com/ipld/go-ipld-prime/linking"
	cidlink "github.com/ipld/go-ipld-prime/linking/cid"
	"github.com/ipld/go-ipld-prime/node/basicnode"
	"github.com/ipld/go-ipld-prime/traversal"
	"github.com/ipld/go-ipld-prime/traversal/selector"
	sb "github.com/ipld/go-ipld-prime/traversal/selector/builder"
	"github.com/multiformats/go-multihash"

	"verifharness/gen"
	"verifharness/mon"
	"verifharness/oracle"
	"verifharness/store"
)

func protoChooser(l datamodel.Link, _ linking.LinkContext) (datamodel.NodePrototype, error) {
	if cl, ok := l.(cidlink.Link); ok {
		return protoForCid(cl.Cid), nil
	}
	return basicnode.Prototype.Any, nil
}

func progressFor(ls *ipld.LinkSystem) traversal.Progress {
	return traversal.Progress{Cfg: &traversal.Config{Ctx: bg, LinkSystem: *ls, LinkTargetNodePrototypeChooser: protoChooser}}
}

// allowedFor returns the set of blocks whose span intersects [a,b); empty
// spans count as intersecting when they lie inside the closed range.
func allowedFor(spans []oracle.Span, root cid.Cid, a, b int64) map[string]bool {
	al := map[string]bool{root.String(): true}
	for _, s := range spans {
		if (s.Start < b && a < s.End) || (s.Start == s.End && a <= s.Start && s.Start <= b) {
			al[s.Cid.String()] = true
		}
	}
	return al
}

// allowedMeasuring is allowedFor for a file whose interior nodes declare no block sizes (but do declare
// their file size): to place a range under such a node a reader has to ask each dag-pb child for its
// length, which costs that child's own block and nothing beneath it. So on top of the blocks the range
// intersects, the direct children of every interior block on the way are allowed - and nothing deeper.
func allowedMeasuring(spans []oracle.Span, root cid.Cid, a, b int64) map[string]bool {
	al := allowedFor(spans, root, a, b)
	onPath := map[string]bool{}
	for _, s := range spans {
		if !s.Leaf && al[s.Cid.String()] {
			onPath[fmt.Sprint(s.Path)] = true
		}
	}
	for _, s := range spans {
		if len(s.Path) > 0 && onPath[fmt.Sprint(s.Path[:len(s.Path)-1])] {
			al[s.Cid.String()] = true
		}
	}
	return al
}

func checkSubset(c *mon.Case, key, what string, log []string, allowed map[string]bool) {
	c.Count("requests_checked", 1)
	c.Count("loads_observed", int64(len(log)))
	for _, l := range log {
		if !allowed[l] {
			c.Violation(key, "%s fetched block %s which is outside the %d blocks the request needs (log of %d loads: %s)", what, l, len(allowed), len(log), strings.Join(short(log), " "))
			return
		}
	}
}

func short(cs []string) []string {
	out := make([]string, len(cs))
	for i, s := range cs {
		if len(s) > 8 {
			s = s[len(s)-8:]
		}
		out[i] = s
	}
	if len(out) > 40 {
		out = out[:40]
	}
	return out
}

func hasSizeInfo(name string) bool {
	return !strings.Contains(name, "nobs")
}

func TestC05(t *testing.T) {
	r := mon.Start(t, "C05")
	defer r.Close()
	fixtures := fileFixtures(newRand(r.SeedFor("fixtures")), !r.Quick())
	// extra shapes for the exhaustive range sweep
	rr := newRand(r.SeedFor("c05shapes"))
	for i := 0; i < r.Pick(40, 600); i++ {
		w := 2 + rr.Intn(3)
		k := 1 + rr.Intn(5)
		n := 1 + rr.Intn(40)
		st := store.New()
		content := gen.Content(rr, []string{"rand", "rand", "zero", "period3"}[rr.Intn(4)], n)
		var l ipld.Link
		withWidth(w, func() {
			l, _, _ = builder.BuildUnixFSFile(bytes.NewReader(content), fmt.Sprintf("size-%d", k), st.LinkSystem(false))
		})
		fixtures = append(fixtures, mkFixture(fmt.Sprintf("shape-w%d-k%d-n%d-%d", w, k, n, i), st, linkCid(l), content))
	}
	for _, f := range fixtures {
		f := f
		plainAllowed := allowedFor
		allowedFor := allowedFor
		if !hasSizeInfo(f.Name) {
			// a file whose interior nodes declare no child sizes cannot be range-read without
			// measuring children. Where the children at least declare their own file size that
			// costs one block per child (allowedMeasuring); where they do not, everything has to
			// be read and there is nothing to judge
			if strings.Contains(f.Name, "nofs") {
				continue
			}
			allowedFor = allowedMeasuring
		}
		r.Case("file/"+f.Name, map[string]any{"fixture": f.Name, "len": len(f.Content), "root": f.Root.String()}, func(c *mon.Case) {
			spans, _, err := walkerFor(f.St).FileSpans(f.Root)
			if err != nil {
				c.Harness("oracle walk: %v", err)
				return
			}
			n := int64(len(f.Content))
			type rng struct{ a, b int64 }
			var ranges []rng
			exhaustive := n <= 40
			if exhaustive {
				for a := int64(0); a <= n; a++ {
					for b := a + 1; b <= n; b++ {
						ranges = append(ranges, rng{a, b})
					}
				}
				c.Count("files_exhaustive_ranges", 1)
			} else {
				for _, a := range f.Boundaries {
					for _, b := range f.Boundaries {
						for _, da := range []int64{-1, 0, 1} {
							for _, db := range []int64{-1, 0, 1} {
								if a+da >= 0 && b+db <= n && a+da < b+db {
									ranges = append(ranges, rng{a + da, b + db})
								}
							}
						}
					}
				}
				if len(ranges) > 3000 {
					mon.Shuffle(c.Rand(), ranges)
					ranges = ranges[:3000]
				}
			}
			st := f.St.Clone()
			st.Logging = true
			ls := st.LinkSystem(true)
			raw, err := loadRaw(ls, f.Root)
			if err != nil {
				c.Harness("load: %v", err)
				return
			}
			var generic ipld.Node
			if f.Root.Prefix().Codec == cid.DagProtobuf {
				if blk, ok := st.Get(f.Root); ok {
					nb := basicnode.Prototype.Any.NewBuilder()
					if dagpb.Decode(nb, bytes.NewReader(blk)) == nil {
						generic = nb.Build()
					}
				}
			}
			blocks := len(spans)
			bnd := map[int64]bool{}
			for _, b := range f.Boundaries {
				bnd[b] = true
			}
			for _, rg := range ranges {
				a, b := rg.a, rg.b
				if bnd[a] || bnd[b] {
					c.Count("ranges_on_chunk_boundary", 1)
				}
				allowed := allowedFor(spans, f.Root, a, b)
				for form := 0; form < 4; form++ {
					// a fresh lazily reified node per request
					var node ipld.Node
					var rerr error
					st.ResetLog() // loads made while reifying lazily count towards the request
					if form == 3 {
						// the direct constructor on the root decoded generically (not as a typed dag-pb node)
						if generic == nil || len(spans) < 2 {
							continue
						}
						if !c.Guard("NewUnixFSFile(generic)", func() { node, rerr = file.NewUnixFSFile(bg, generic, ls) }) || rerr != nil || node == nil {
							c.Violation("C05|reify", "file.NewUnixFSFile on a generically decoded root: %v", rerr)
							return
						}
					} else if !c.Guard("Reify", func() { node, rerr = ls.KnownReifiers["unixfs"](ipld.LinkContext{Ctx: bg}, raw, ls) }) || rerr != nil {
						c.Violation("C05|reify", "lazy reify: %v", rerr)
						return
					}
					var got []byte
					var gerr error
					what := ""
					switch form {
					case 0, 1, 3:
						lb, isLB := node.(largeBytes)
						if !isLB {
							c.Violation("C05|reify", "node %T has no AsLargeBytes", node)
							return
						}
						c.Guard("Seek+ReadFull", func() {
							rs, e := lb.AsLargeBytes()
							if e != nil {
								gerr = e
								return
							}
							if form == 0 || form == 3 {
								what = fmt.Sprintf("Seek(%d,Start)+ReadFull(%d)", a, b-a)
								if form == 3 {
									what += " via NewUnixFSFile(generic root)"
								}
								_, gerr = rs.Seek(a, io.SeekStart)
							} else {
								what = fmt.Sprintf("Seek(%d,End)+ReadFull(%d)", a-n, b-a)
								_, gerr = rs.Seek(a-n, io.SeekEnd)
							}
							if gerr != nil {
								return
							}
							got = make([]byte, b-a)
							_, gerr = io.ReadFull(rs, got)
						})
					case 2:
						what = fmt.Sprintf("MatcherSubset(%d,%d)", a, b)
						c.Guard("MatcherSubset traversal", func() {
							ssb := sb.NewSelectorSpecBuilder(basicnode.Prototype.Any)
							sel, e := ssb.MatcherSubset(a, b).Selector()
							if e != nil {
								gerr = e
								return
							}
							gerr = progressFor(ls).WalkMatching(node, sel, func(_ traversal.Progress, nd datamodel.Node) error {
								bb, e := nd.AsBytes()
								got = bb
								return e
							})
						})
					}
					log := st.ReadCids()
					if gerr != nil || !bytes.Equal(got, f.Content[a:b]) {
						c.Violation("C05|wrong-bytes", "%s on %s returned %d bytes err=%v, want content[%d:%d]", what, f.Name, len(got), gerr, a, b)
						return
					}
					checkSubset(c, "C05|file-overfetch|"+[]string{"seek-start", "seek-end", "subset-matcher", "generic-root"}[form], what+" on "+f.Name, log, allowed)
					// the reader returned the right bytes, so it must have fetched every leaf it needed
					need := len(plainAllowed(spans, f.Root, a, b))
					if form == 0 && len(uniq(log))+1 < need-countEmpty(spans, a, b) {
						c.Harness("oracle inconsistency: bytes correct but %d distinct loads < %d needed blocks for [%d,%d) of %s", len(uniq(log)), need, a, b, f.Name)
					}
				}
			}
			// histories: several range requests on ONE reader; every request on its own
			// may fetch only what its range needs, whatever the reader did before
			if n >= 2 {
				rr := c.Rand()
				for h := 0; h < 60; h++ {
					node, rerr := ls.KnownReifiers["unixfs"](ipld.LinkContext{Ctx: bg}, raw, ls)
					if rerr != nil {
						break
					}
					rs, err := node.(largeBytes).AsLargeBytes()
					if err != nil {
						break
					}
					pos := int64(0)
					for step := 0; step < 2+rr.Intn(4); step++ {
						a := int64(rr.Intn(int(n)))
						if rr.Intn(3) == 0 {
							a = f.Boundaries[rr.Intn(len(f.Boundaries))]
							if a >= n {
								a = n - 1
							}
						}
						b := a + 1 + int64(rr.Intn(int(n-a)))
						st.ResetLog()
						var got []byte
						var gerr error
						what := ""
						c.Guard("history step", func() {
							// sometimes reposition first and abandon that position without reading there
							for k := rr.Intn(3); k > 0; k-- {
								p := int64(rr.Intn(int(n) + 1))
								switch rr.Intn(3) {
								case 0:
									_, gerr = rs.Seek(p, io.SeekStart)
								case 1:
									_, gerr = rs.Seek(p-n, io.SeekEnd)
								default:
									_, gerr = rs.Seek(0, io.SeekCurrent)
								}
								if gerr != nil {
									return
								}
								c.Count("abandoned_seeks", 1)
							}
							if np, e := rs.Seek(0, io.SeekCurrent); e == nil {
								pos = np
							}
							switch rr.Intn(3) {
							case 0:
								what = fmt.Sprintf("step %d: Seek(%d,Start)+ReadFull(%d) after position %d", step, a, b-a, pos)
								_, gerr = rs.Seek(a, io.SeekStart)
							case 1:
								what = fmt.Sprintf("step %d: Seek(%d,Current)+ReadFull(%d) from position %d", step, a-pos, b-a, pos)
								_, gerr = rs.Seek(a-pos, io.SeekCurrent)
							default:
								what = fmt.Sprintf("step %d: Seek(%d,End)+ReadFull(%d) after position %d", step, a-n, b-a, pos)
								_, gerr = rs.Seek(a-n, io.SeekEnd)
							}
							if gerr == nil {
								got = make([]byte, b-a)
								_, gerr = io.ReadFull(rs, got)
							}
						})
						if gerr != nil || !bytes.Equal(got, f.Content[a:b]) {
							c.Violation("C05|wrong-bytes", "%s on %s returned %d bytes err=%v", what, f.Name, len(got), gerr)
							break
						}
						pos = b
						c.Count("history_steps", 1)
						checkSubset(c, "C05|file-overfetch|history", what+" on "+f.Name, st.ReadCids(), allowedFor(spans, f.Root, a, b))
					}
				}
			}
			// several goroutines, each with its own reader on ONE cold node, all asking for the first
			// byte at once: together they may fetch only what the first byte needs
			if n >= 2 && len(spans) >= 3 {
				allowed := allowedFor(spans, f.Root, 0, 1)
				for round := 0; round < 6; round++ {
					node, rerr := ls.KnownReifiers["unixfs"](ipld.LinkContext{Ctx: bg}, raw, ls)
					if rerr != nil {
						break
					}
					st.ResetLog()
					var wg sync.WaitGroup
					start := make(chan struct{})
					var bad int32
					for g := 0; g < 8; g++ {
						wg.Add(1)
						go func() {
							defer wg.Done()
							defer func() { recover() }()
							<-start
							rs, err := node.(largeBytes).AsLargeBytes()
							if err != nil {
								atomic.AddInt32(&bad, 1)
								return
							}
							one := make([]byte, 1)
							if _, err := io.ReadFull(rs, one); err != nil || one[0] != f.Content[0] {
								atomic.AddInt32(&bad, 1)
							}
						}()
					}
					close(start)
					wg.Wait()
					c.Count("concurrent_first_reads", 8)
					if bad > 0 {
						c.Violation("C05|wrong-bytes", "%d of 8 concurrent readers of the first byte of %s failed or read a wrong byte", bad, f.Name)
						break
					}
					checkSubset(c, "C05|file-overfetch|concurrent-first-read", "8 goroutines reading byte 0 of one cold node of "+f.Name, st.ReadCids(), allowed)
				}
			}
			depth, spine, _ := shapeOf(walkerFor(f.St), f.Root)
			c.Sig(fmt.Sprintf("file|%s|d%d|spine%v|exh=%v", strings.Split(f.Name, "-")[0], depth, spine, exhaustive), blocks >= 2)
			c.Sample(map[string]any{"fixture": f.Name, "ranges": len(ranges), "exhaustive": exhaustive, "blocks": blocks})
		})
	}

	// a sparse file whose first sub-tree declares 5 GiB (and is never read): reading the tail behind
	// it may fetch the tail only - declared sizes beyond 32 bits are sizes all the same
	r.Case("file/sparse-huge-subtree", map[string]any{"declared": "5 GiB sub-tree + 7-byte tail"}, func(c *mon.Case) {
		st := store.New()
		tail := []byte("thetail")
		tailCid := st.PutBlock(1, cid.Raw, tail)
		ft := pb.Data_File
		huge := uint64(5) << 30
		missing := store.New().PutBlock(1, cid.Raw, []byte("a block that is not in the store"))
		hm := &pb.Data{Type: &ft, Filesize: proto.Uint64(huge), Blocksizes: []uint64{huge}}
		hblk := encodePB(mustMarshal(hm), true, []pbLinkSpec{{Name: strp(""), Tsize: u64p(huge), Cid: missing}})
		hCid := st.PutBlock(1, cid.DagProtobuf, hblk)
		rm := &pb.Data{Type: &ft, Filesize: proto.Uint64(huge + 7), Blocksizes: []uint64{huge, 7}}
		root := st.PutBlock(1, cid.DagProtobuf, encodePB(mustMarshal(rm), true, []pbLinkSpec{
			{Name: strp(""), Tsize: u64p(huge + uint64(len(hblk))), Cid: hCid}, {Name: strp(""), Tsize: u64p(7), Cid: tailCid}}))
		st.Logging = true
		ls := st.LinkSystem(true)
		raw, err := loadRaw(ls, root)
		if err != nil {
			c.Harness("load: %v", err)
			return
		}
		allowed := map[string]bool{root.String(): true, tailCid.String(): true}
		for a := int64(0); a < 7; a++ {
			for form := 0; form < 3; form++ {
				st.ResetLog()
				node, rerr := ls.KnownReifiers["unixfs"](ipld.LinkContext{Ctx: bg}, raw, ls)
				if rerr != nil || node == nil || node.Kind() != datamodel.Kind_Bytes {
					c.Violation("C05|reify", "lazy reify of the sparse file: %v (%T)", rerr, node)
					return
				}
				var got []byte
				var gerr error
				what := ""
				c.Guard("sparse read", func() {
					switch form {
					case 0, 1:
						rs, e := node.(largeBytes).AsLargeBytes()
						if e != nil {
							gerr = e
							return
						}
						if form == 0 {
							what = fmt.Sprintf("Seek(5GiB+%d,Start)+ReadFull", a)
							_, gerr = rs.Seek(int64(huge)+a, io.SeekStart)
						} else {
							what = fmt.Sprintf("Seek(%d,End)+ReadFull", a-7)
							_, gerr = rs.Seek(a-7, io.SeekEnd)
						}
						if gerr == nil {
							got = make([]byte, 7-a)
							_, gerr = io.ReadFull(rs, got)
						}
					default:
						what = fmt.Sprintf("MatcherSubset(5GiB+%d,5GiB+7)", a)
						ssb := sb.NewSelectorSpecBuilder(basicnode.Prototype.Any)
						sel, e := ssb.MatcherSubset(int64(huge)+a, int64(huge)+7).Selector()
						if e != nil {
							gerr = e
							return
						}
						gerr = progressFor(ls).WalkMatching(node, sel, func(_ traversal.Progress, nd datamodel.Node) error {
							bb, e := nd.AsBytes()
							got = bb
							return e
						})
					}
				})
				if gerr != nil || !bytes.Equal(got, tail[a:]) {
					c.Violation("C05|wrong-bytes", "%s on the sparse file returned %q err=%v, want %q", what, got, gerr, tail[a:])
					return
				}
				checkSubset(c, "C05|file-overfetch|"+[]string{"seek-start", "seek-end", "subset-matcher"}[form], what+" on a file whose first sub-tree declares 5 GiB", st.ReadCids(), allowed)
			}
		}
		c.Sig("file|sparse-huge", true)
	})
	// sharded directories: one lookup on a fresh node fetches only the hash path
	for _, d := range dirCases(r) {
		d := d
		if d.Builder != "sharded" || d.N < 2 || d.N > 2000 {
			continue
		}
		r.Case("dir/"+d.id(), d, func(c *mon.Case) {
			names := namesFor(c, d)
			st := store.New()
			entries, model, _ := childEntries(st, names)
			l, _, err := builder.BuildUnixFSShardedDirectory(d.Fanout, multihash.MURMUR3X64_64, entries, st.LinkSystem(false))
			if err != nil {
				return // unrepresentable sets are C02/C08's business
			}
			root := linkCid(l)
			w := walkerFor(st)
			_, shards, depth, err := w.HamtWalk(root)
			if err != nil {
				c.Harness("oracle hamt walk: %v", err)
				return
			}
			st.Logging = true
			ls := st.LinkSystem(true)
			raw, err := loadRaw(ls, root)
			if err != nil {
				c.Harness("load: %v", err)
				return
			}
			probes := append([]string(nil), names...)
			if len(probes) > 150 {
				mon.Shuffle(c.Rand(), probes)
				probes = probes[:150]
			}
			nm := len(probes)
			for _, n := range probes[:min(nm, 60)] {
				probes = append(probes, n+"x", "y"+n)
			}
			rr := c.Rand()
			for i := 0; i < 30; i++ {
				m := names[rr.Intn(len(names))]
				h := oracle.Hash64(m)
				keep := uint(4 + rr.Intn(60))
				mask := ^uint64(0) << (64 - keep)
				probes = append(probes, gen.Craft16(h&mask|rr.Uint64()&^mask, rr.Uint64()))
			}
			var warm ipld.Node
			warmAllowed := map[string]bool{root.String(): true}
			for i, name := range probes {
				path, found, err := w.HamtLookupPath(root, name)
				if err != nil {
					c.Harness("oracle lookup path: %v", err)
					return
				}
				_, member := model[name]
				if member != (found != nil) {
					c.Harness("oracle lookup path disagrees with model for %q", name)
					return
				}
				allowed := map[string]bool{root.String(): true}
				for _, p := range path {
					allowed[p.String()] = true
					warmAllowed[p.String()] = true
				}
				var node ipld.Node
				var rerr error
				st.ResetLog() // loads made while reifying lazily count towards the lookup
				c.Guard("Reify", func() { node, rerr = ls.KnownReifiers["unixfs"](ipld.LinkContext{Ctx: bg}, raw, ls) })
				if rerr != nil || node == nil {
					c.Violation("C05|reify", "lazy reify of sharded dir: %v", rerr)
					return
				}
				if i == 0 {
					warm = node
				}
				// the lookup entry points rotate: by string, by segment, by node (plain and dag-pb typed
				// string) and the native typed accessor
				ep := i % 5
				c.Guard("lookup", func() {
					switch ep {
					case 0:
						node.LookupByString(name)
					case 1:
						node.LookupBySegment(datamodel.PathSegmentOfString(name))
					case 2:
						node.LookupByNode(basicnode.NewString(name))
					case 3:
						node.LookupByNode(pbString(name))
					default:
						if nl, isN := node.(interface{ Lookup(dagpb.String) dagpb.Link }); isN {
							nl.Lookup(pbString(name))
						} else {
							node.LookupByString(name)
						}
					}
				})
				c.Count(fmt.Sprintf("dir_lookups_entry_point_%d", ep), 1)
				checkSubset(c, fmt.Sprintf("C05|dir-overfetch|member=%v", member), fmt.Sprintf("lookup (entry point %d: 0 string, 1 segment, 2 node, 3 typed node, 4 native) of %q on a fresh fanout-%d directory (depth %d, %d shards)", ep, name, d.Fanout, depth+1, len(shards)), st.ReadCids(), allowed)
				if member {
					c.Count("dir_lookups_member", 1)
				} else {
					c.Count("dir_lookups_nonmember", 1)
				}
				// the same lookup on a node whose cache is warm from earlier lookups
				st.ResetLog()
				c.Guard("LookupByString warm", func() { warm.LookupByString(name) })
				checkSubset(c, "C05|dir-overfetch|warm", fmt.Sprintf("LookupByString(%q) on a warm node", name), st.ReadCids(), allowed)
			}
			c.Max("max_hamt_depth", int64(depth+1))
			c.Sig(fmt.Sprintf("dir|f%d|depth%d|%s", d.Fanout, depth+1, d.Family), len(shards) >= 2)
		})
	}

	// paths: resolving a path fetches only the blocks on that path
	for i := 0; i < r.Pick(40, 500); i++ {
		i := i
		r.Case(fmt.Sprintf("tree/%d", i), map[string]any{"tree": i}, func(c *mon.Case) {
			root := genTree(c.Rand(), 3, true)
			st := store.New()
			if err := buildTree(st, root, nil); err != nil {
				c.Harness("tree build failed: %v", err)
				return
			}
			w := walkerFor(st)
			st.Logging = true
			ls := st.LinkSystem(true)
			for _, n := range root.all() {
				path := strings.Join(n.Path, "/")
				// allowed: every directory block on the path, the shards on each segment's hash path, the target's root
				allowed := map[string]bool{root.Cid.String(): true}
				cur := root
				okp := true
				for _, seg := range n.Path {
					if cur.Kind == "hamt" {
						p, found, err := w.HamtLookupPath(cur.Cid, seg)
						if err != nil || found == nil {
							c.Harness("oracle cannot resolve %q in hamt: %v", seg, err)
							okp = false
							break
						}
						for _, s := range p {
							allowed[s.String()] = true
						}
					}
					cur = cur.child(seg)
					allowed[cur.Cid.String()] = true
				}
				if !okp {
					return
				}
				for _, spelled := range []string{path, "/" + path + "/", strings.ReplaceAll(path, "/", "//")} {
					raw, err := loadRaw(ls, root.Cid)
					if err != nil {
						c.Harness("load root: %v", err)
						return
					}
					st.ResetLog()
					matches := 0
					var werr error
					c.Guard("path traversal", func() {
						sel, e := selector.CompileSelector(unixfsnode.UnixFSPathSelector(spelled))
						if e != nil {
							werr = e
							return
						}
						werr = progressFor(ls).WalkMatching(raw, sel, func(_ traversal.Progress, _ datamodel.Node) error {
							matches++
							return nil
						})
					})
					if werr != nil || matches != 1 {
						c.Violation("C05|path-resolution", "UnixFSPathSelector(%q): %d matches, err %v", spelled, matches, werr)
						continue
					}
					c.Count("paths_checked", 1)
					checkSubset(c, "C05|path-overfetch|"+n.Kind, fmt.Sprintf("UnixFSPathSelector(%q) (target %s)", spelled, n.Kind), st.ReadCids(), allowed)
				}
				hl := 0
				cur = root
				for _, seg := range n.Path {
					if cur.Kind == "hamt" {
						hl++
					}
					cur = cur.child(seg)
				}
				c.Sig(fmt.Sprintf("path|depth%d|hamt%d|%s", len(n.Path), hl, n.Kind), len(n.Path) >= 1)
			}
		})
	}
}

func uniq(s []string) map[string]bool {
	m := map[string]bool{}
	for _, x := range s {
		m[x] = true
	}
	return m
}

func countEmpty(spans []oracle.Span, a, b int64) int {
	n := 0
	for _, s := range spans {
		if s.Start == s.End && a <= s.Start && s.Start <= b {
			n++
		}
	}
	return n
}

var _ = dagpb.Type
