package props

import (
	"bytes"
	"context"
	"errors"
	"fmt"
	"hash/fnv"
	"io"
	"math/rand"
	"runtime"
	"strings"
	"sync"
	"sync/atomic"
	"testing"
	"time"

	"github.com/gogo/protobuf/proto"
	pb "github.com/ipfs/boxo/ipld/unixfs/pb"
	"github.com/ipfs/go-cid"
	"github.com/ipfs/go-unixfsnode/data/builder"
	"github.com/ipfs/go-unixfsnode/file"
	"github.com/ipfs/go-unixfsnode/hamt"
	"github.com/ipld/go-ipld-prime"
	"github.com/ipld/go-ipld-prime/datamodel"
	"github.com/ipld/go-ipld-prime/node/basicnode"
	"github.com/multiformats/go-multihash"

	"verifharness/gen"
	"verifharness/mon"
	"verifharness/oracle"
	"verifharness/store"
)

// hookState is the monitor's own (synchronised) state for one round.
type hookState struct {
	mu      sync.Mutex
	events  []string
	active  int32
	maxSeen int32
	ctr     uint64
	seed    uint64
	inject  bool
}

func mix64(x uint64) uint64 {
	x += 0x9e3779b97f4a7c15
	x = (x ^ (x >> 30)) * 0xbf58476d1ce4e5b9
	x = (x ^ (x >> 27)) * 0x94d049bb133111eb
	return x ^ (x >> 31)
}

func (h *hookState) at(site string) {
	a := atomic.LoadInt32(&h.active)
	h.mu.Lock()
	if len(h.events) < 4000 {
		h.events = append(h.events, fmt.Sprintf("%s@%d", site, a))
	}
	if a > h.maxSeen {
		h.maxSeen = a
	}
	h.mu.Unlock()
	n := atomic.AddUint64(&h.ctr, 1)
	if !h.inject {
		return
	}
	switch mix64(h.seed+n) % 8 {
	case 0, 1, 2:
		runtime.Gosched()
	case 3:
		time.Sleep(20 * time.Microsecond)
	}
}

func (h *hookState) hash() string {
	h.mu.Lock()
	defer h.mu.Unlock()
	f := fnv.New64a()
	for _, e := range h.events {
		f.Write([]byte(e))
		f.Write([]byte{0})
	}
	return fmt.Sprintf("%x", f.Sum64())
}

type c17Result struct {
	mu       sync.Mutex
	diffs    []string
	ops      int64
	deadlock bool   // every unfinished worker parked in a lock acquisition
	deadSite string // innermost library function of one parked worker
	deadMsg  string
	stuck    bool // the round did not finish within the watchdog and is not a provable deadlock
}

func (r *c17Result) diff(format string, args ...any) {
	r.mu.Lock()
	if len(r.diffs) < 5 {
		r.diffs = append(r.diffs, fmt.Sprintf(format, args...))
	}
	r.mu.Unlock()
}

// blockedWorkers takes one stop-the-world stack snapshot and reports how many
// of the round's worker goroutines exist and how many of those are parked in a
// mutex acquisition, with the innermost library function of one of them.
func blockedWorkers() (workers, blocked int, site, excerpt string) {
	buf := make([]byte, 4<<20)
	buf = buf[:runtime.Stack(buf, true)]
	for _, g := range strings.Split(string(buf), "\n\n") {
		if !strings.Contains(g, "props.runRound.func") || strings.Contains(g, "props.runRound.func2") {
			continue
		}
		workers++
		// the goroutine's wait state is in its header line: "goroutine 12 [chan receive, 1 minutes]:"
		state := ""
		if i := strings.Index(g, "["); i >= 0 {
			if j := strings.Index(g[i:], "]"); j > 0 {
				state = strings.SplitN(g[i+1:i+j], ",", 2)[0]
			}
		}
		parked := false
		switch state {
		case "chan receive", "chan send", "select", "select (no cases)", "sync.Mutex.Lock", "sync.RWMutex.Lock", "sync.RWMutex.RLock", "semacquire", "sync.Cond.Wait", "sync.WaitGroup.Wait", "chan receive (nil chan)", "chan send (nil chan)":
			// waiting for another goroutine - and the library starts none of its own
			parked = strings.Contains(g, "github.com/ipfs/go-unixfsnode")
		}
		if parked {
			blocked++
			if site == "" {
				for _, ln := range strings.Split(g, "\n") {
					if strings.HasPrefix(ln, "github.com/ipfs/go-unixfsnode") {
						site = ln[:strings.LastIndex(ln, "(")]
						site = site[strings.LastIndex(site, "/")+1:]
						break
					}
				}
				excerpt = g
				if len(excerpt) > 1200 {
					excerpt = excerpt[:1200]
				}
				excerpt = strings.ReplaceAll(strings.ReplaceAll(excerpt, "\n\t", " @ "), "\n", " | ")
			}
		}
	}
	return
}

// runRound releases G goroutines on one shared node. While waiting for them
// it watches a progress counter; when nothing has moved for a while it takes
// stack snapshots, and if every unfinished worker is parked in a mutex
// acquisition (so that nobody is left who could release it) the round is a
// deadlock. Wall-clock time only decides when to look, never the verdict.
func runRound(c *mon.Case, node ipld.Node, G int, hs *hookState, seed int64, work func(g int, rr *rand.Rand, node ipld.Node, res *c17Result)) *c17Result {
	res := &c17Result{}
	var wg sync.WaitGroup
	var finished int32
	start := make(chan struct{})
	for g := 0; g < G; g++ {
		wg.Add(1)
		go func(g int) {
			defer wg.Done()
			defer atomic.AddInt32(&finished, 1)
			rr := rand.New(rand.NewSource(seed*131 + int64(g)))
			<-start
			atomic.AddInt32(&hs.active, 1)
			defer atomic.AddInt32(&hs.active, -1)
			defer func() {
				if p := recover(); p != nil {
					site, inLib, _ := mon.PanicSite()
					res.diff("panic in goroutine %d: %v (library frame: %v %s)", g, p, inLib, site)
				}
			}()
			work(g, rr, node, res)
		}(g)
	}
	close(start)
	done := make(chan struct{})
	go func() { wg.Wait(); close(done) }()
	progress := func() int64 {
		return atomic.LoadInt64(&res.ops) + int64(atomic.LoadUint64(&hs.ctr)) + int64(atomic.LoadInt32(&finished))<<32
	}
	last, still := progress(), 0
	for waited := 0; ; waited++ {
		select {
		case <-done:
			return res
		case <-time.After(250 * time.Millisecond):
		}
		if p := progress(); p != last {
			last, still = p, 0
			continue
		}
		still++
		if still < 12 {
			continue
		}
		w1, b1, site, excerpt := blockedWorkers()
		unfinished := G - int(atomic.LoadInt32(&finished))
		if unfinished > 0 && w1 >= unfinished && b1 == w1 && progress() == last {
			res.deadlock = true
			res.deadSite = site
			res.deadMsg = fmt.Sprintf("deadlock: %d of %d goroutines have returned, each of the other %d is parked inside the library waiting for a lock, a channel or a condition (%s) and no operation has completed for %d ms; one of them: %s", G-unfinished, G, unfinished, site, still*250, excerpt)
			return res
		}
		if waited > 4*60*20 {
			res.stuck = true
			return res
		}
	}
}

// errClass reduces an error to what a caller can tell apart.
func errClass(err error) string {
	switch {
	case isNotFound(err):
		return "no such entry"
	case errors.Is(err, hamt.ErrHAMTFanoutMismatch):
		return "fanout mismatch"
	}
	var nf store.ErrNotFound
	if errors.As(err, &nf) || strings.Contains(err.Error(), "verif store: block not found") {
		return "block not found"
	}
	return err.Error()
}

func TestC17(t *testing.T) {
	r := mon.Start(t, "C17")
	defer r.Close()
	rounds := r.Pick(12, 120)
	type dirCfg struct {
		Fanout, N int
		Warm      bool
		Family    string
	}
	// hundreds of goroutines on one deep cold directory (limits that only bite under load)
	for k := 0; k < 2; k++ {
		k := k
		r.Case(fmt.Sprintf("dir-many-goroutines/%d", k), map[string]any{"fanout": 8, "entries": 600, "goroutines": 300, "rounds": 4}, func(c *mon.Case) {
			st := store.New()
			names := namesFor(c, dirCase{Family: "ascii", N: 600})
			entries, model, _ := childEntries(st, names)
			l, _, err := builder.BuildUnixFSShardedDirectory(8, multihash.MURMUR3X64_64, entries, st.LinkSystem(false))
			if err != nil {
				c.Harness("build: %v", err)
				return
			}
			ls := st.LinkSystem(true)
			raw, err := loadRaw(ls, linkCid(l))
			if err != nil {
				c.Harness("load: %v", err)
				return
			}
			for round := 0; round < 4; round++ {
				hs := &hookState{seed: c.Seed + uint64(round), inject: true}
				hamt.SetVerifHook(hs.at)
				node, err := reify(ls, raw)
				if err != nil {
					c.Violation("C17|reify", "%v", err)
					return
				}
				var lmu sync.Mutex
				lookedUp := map[string]bool{}
				res := runRound(c, node, 300, hs, int64(c.Seed)+int64(round), func(g int, rr *rand.Rand, node ipld.Node, res *c17Result) {
					for i := 0; i < 6; i++ {
						atomic.AddInt64(&res.ops, 1)
						name := names[rr.Intn(len(names))]
						v, err := node.LookupByString(name)
						if err != nil {
							res.diff("LookupByString(%q) of a member failed among 300 goroutines: %v", name, err)
							continue
						}
						if got, e := asCid(v); e != nil || !got.Equals(model[name]) {
							res.diff("LookupByString(%q) returned %v among 300 goroutines, %v alone", name, got, model[name])
							continue
						}
						lmu.Lock()
						lookedUp[name] = true
						lmu.Unlock()
					}
				})
				hamt.SetVerifHook(nil)
				if !res.stuck && !res.deadlock && len(res.diffs) == 0 {
					// the node after the round is the node after SOME serial order of those lookups, and after
					// any serial order every shard on the way to a name that was found is held by the node:
					// with the storage shut, each of those names is found again
					st.Closed = true
					for name := range lookedUp {
						v, err := node.LookupByString(name)
						if err != nil {
							res.diff("after %d concurrent lookups had all returned, the storage was shut: LookupByString(%q) - found during the round - now fails with %v; after the same lookups in any serial order it succeeds", res.ops, name, err)
							break
						}
						if got, e := asCid(v); e != nil || !got.Equals(model[name]) {
							res.diff("with the storage shut LookupByString(%q) returns %v, want %v", name, got, model[name])
							break
						}
					}
					st.Closed = false
					c.Count("names_looked_up_again_without_storage", int64(len(lookedUp)))
				}
				c.Count("rounds", 1)
				c.Count("ops_compared", res.ops)
				c.Count("overlapped_rounds", 1)
				if res.stuck {
					c.Inconclusive("round %d did not finish within the watchdog and is not a provable deadlock", round)
					return
				}
				if res.deadlock {
					c.Violation("C17|deadlock|"+res.deadSite, "300 goroutines looking up members of one cold fanout-8 directory, round %d: %s", round, res.deadMsg)
					return
				}
				for _, dmsg := range res.diffs {
					c.Violation("C17|result-differs|dir", "300 goroutines, round %d: %s", round, dmsg)
				}
				c.Sig(fmt.Sprintf("dir-many-goroutines|%s", hs.hash()), true)
				if len(res.diffs) > 0 {
					return
				}
			}
		})
	}
	// a load that hangs in storage (a peer that never answers): goroutine A's lookup is stuck fetching
	// one child shard; goroutine B looks up a name under ANOTHER child shard, whose blocks are all
	// there. Alone B's lookup returns at once, so it has to return here too - the store lets A's read go
	// only after B's lookup has returned, so if B waits for A nobody moves and the round is a deadlock
	for k := 0; k < r.Pick(3, 12); k++ {
		k := k
		r.Case(fmt.Sprintf("dir-stalled-load/%d", k), map[string]any{"fanout": []int{8, 16, 256}[k%3], "entries": 400, "goroutines": 2}, func(c *mon.Case) {
			fan := []int{8, 16, 256}[k%3]
			st := store.New()
			names := namesFor(c, dirCase{Family: "ascii", N: 400 + 3000*boolInt(fan == 256)})
			entries, model, _ := childEntries(st, names)
			l, _, err := builder.BuildUnixFSShardedDirectory(fan, multihash.MURMUR3X64_64, entries, st.LinkSystem(false))
			if err != nil {
				c.Harness("build: %v", err)
				return
			}
			w := walkerFor(st)
			// two members whose hash paths leave the root through different child shards
			var nameA, nameB string
			var childA cid.Cid
			for _, nm := range names {
				p, _, err := w.HamtLookupPath(linkCid(l), nm)
				if err != nil || len(p) < 1 {
					continue
				}
				if nameA == "" {
					nameA, childA = nm, p[0]
				} else {
					disjoint := true
					for _, b := range p {
						if b.Equals(childA) {
							disjoint = false
						}
					}
					if disjoint {
						nameB = nm
						break
					}
				}
			}
			if nameB == "" {
				c.Harness("no two names under different child shards")
				return
			}
			for round := 0; round < 4; round++ {
				fs := st.Clone()
				ls := fs.LinkSystem(true)
				raw, err := loadRaw(ls, linkCid(l))
				if err != nil {
					c.Harness("load: %v", err)
					return
				}
				node, err := reify(ls, raw)
				if err != nil {
					c.Violation("C17|reify", "%v", err)
					return
				}
				entered, gate := make(chan struct{}), make(chan struct{})
				var once, gateOnce sync.Once
				release := func() { gateOnce.Do(func() { close(gate) }) }
				fs.OnRead = func(b cid.Cid) {
					if b.Equals(childA) {
						once.Do(func() { close(entered) })
						<-gate
					}
				}
				hs := &hookState{seed: c.Seed + uint64(round)}
				res := runRound(c, node, 2, hs, int64(c.Seed)+int64(round), func(g int, rr *rand.Rand, node ipld.Node, res *c17Result) {
					name := nameA
					if g == 1 {
						name = nameB
						<-entered // A is inside its load now
					}
					v, err := node.LookupByString(name)
					atomic.AddInt64(&res.ops, 1)
					if g == 1 {
						release()
					}
					if err != nil {
						res.diff("LookupByString(%q) of a member failed: %v", name, err)
					} else if got, e := asCid(v); e != nil || !got.Equals(model[name]) {
						res.diff("LookupByString(%q) returned %v, alone %v", name, got, model[name])
					}
				})
				release() // lets parked goroutines of a deadlocked round go
				c.Count("rounds", 1)
				c.Count("stalled_load_rounds", 1)
				c.Count("ops_compared", res.ops)
				if res.stuck {
					c.Inconclusive("round %d did not finish within the watchdog and is not a provable deadlock", round)
					return
				}
				if res.deadlock {
					c.Violation("C17|deadlock|"+res.deadSite, "fanout %d: while one goroutine's load of child shard %s hangs in storage, a lookup of %q - whose hash path does not touch that shard - does not return: %s", fan, childA, nameB, res.deadMsg)
					return
				}
				for _, dmsg := range res.diffs {
					c.Violation("C17|result-differs|dir", "stalled load, round %d: %s", round, dmsg)
				}
			}
			c.Sig(fmt.Sprintf("dir-stalled-load|f%d", fan), true)
		})
	}
	// the same for two readers of one file node: A's read of the first leaf hangs, B reads the last leaf
	for k := 0; k < r.Pick(2, 8); k++ {
		k := k
		r.Case(fmt.Sprintf("file-stalled-load/%d", k), map[string]any{"width": 2 + k%2, "goroutines": 2}, func(c *mon.Case) {
			st := store.New()
			content := gen.Content(c.Rand(), "rand", 60+c.Rand().Intn(40))
			var l ipld.Link
			var err error
			withWidth(2+k%2, func() { l, _, err = builder.BuildUnixFSFile(bytes.NewReader(content), "size-5", st.LinkSystem(false)) })
			if err != nil {
				c.Harness("build: %v", err)
				return
			}
			spans, _, err := walkerFor(st).FileSpans(linkCid(l))
			if err != nil {
				c.Harness("oracle: %v", err)
				return
			}
			var first, last *oracle.Span
			for i := range spans {
				if spans[i].Leaf && spans[i].End > spans[i].Start {
					if first == nil {
						first = &spans[i]
					}
					last = &spans[i]
				}
			}
			if first == nil || first == last || first.Cid.Equals(last.Cid) {
				c.Harness("file has fewer than two distinct leaves")
				return
			}
			for round := 0; round < 4; round++ {
				fs := st.Clone()
				ls := fs.LinkSystem(true)
				raw, err := loadRaw(ls, linkCid(l))
				if err != nil {
					c.Harness("load: %v", err)
					return
				}
				var node ipld.Node
				if round%2 == 0 {
					node, err = reify(ls, raw)
				} else {
					node, err = ls.KnownReifiers["unixfs-preload"](ipld.LinkContext{Ctx: bg}, raw, ls)
				}
				if err != nil {
					c.Violation("C17|reify", "%v", err)
					return
				}
				entered, gate := make(chan struct{}), make(chan struct{})
				var once, gateOnce sync.Once
				release := func() { gateOnce.Do(func() { close(gate) }) }
				fs.OnRead = func(b cid.Cid) {
					if b.Equals(first.Cid) {
						once.Do(func() { close(entered) })
						<-gate
					}
				}
				hs := &hookState{seed: c.Seed + uint64(round)}
				res := runRound(c, node, 2, hs, int64(c.Seed)+int64(round), func(g int, rr *rand.Rand, node ipld.Node, res *c17Result) {
					sp := first
					if g == 1 {
						sp = last
						<-entered
					}
					var got []byte
					rs, err := node.(largeBytes).AsLargeBytes()
					if err == nil {
						if _, err = rs.Seek(sp.Start, io.SeekStart); err == nil {
							got = make([]byte, sp.End-sp.Start)
							_, err = io.ReadFull(rs, got)
						}
					}
					atomic.AddInt64(&res.ops, 1)
					if g == 1 {
						release()
					}
					if err != nil || !bytes.Equal(got, content[sp.Start:sp.End]) {
						res.diff("reading [%d,%d) through an own reader returned %x, err %v", sp.Start, sp.End, got, err)
					}
				})
				release()
				c.Count("rounds", 1)
				c.Count("stalled_load_rounds", 1)
				c.Count("ops_compared", res.ops)
				if res.stuck {
					c.Inconclusive("round %d did not finish within the watchdog and is not a provable deadlock", round)
					return
				}
				if res.deadlock {
					c.Violation("C17|deadlock|"+res.deadSite, "file of %d bytes: while one reader's load of the first leaf hangs in storage, another reader's read of the last leaf does not return: %s", len(content), res.deadMsg)
					return
				}
				for _, dmsg := range res.diffs {
					c.Violation("C17|result-differs|file", "stalled load, round %d: %s", round, dmsg)
				}
			}
			c.Sig("file-stalled-load", true)
		})
	}
	dirs := []dirCfg{{8, 400, false, "ascii"}, {8, 400, true, "ascii"}, {16, 600, false, "mixed"}, {8, 2000, false, "ascii"}, {256, 3000, false, "ascii"}, {8, 6, false, "crafted"}, {1024, 4000, true, "mixed"}, {32, 300, false, "hexprefix"}}
	// link lists with nameless and repeated links, listed and looked up by several goroutines - these
	// cases come first, and nothing lists such a node sequentially beforehand, so that whatever is
	// set up lazily on first use is set up under concurrency
	for k := 0; k < 16; k++ {
		k := k
		r.Case(fmt.Sprintf("nameless-links/%d", k), map[string]any{"goroutines": 8, "rounds": rounds}, func(c *mon.Case) {
			rr := c.Rand()
			st := store.New()
			type lk struct {
				name string
				c    cid.Cid
			}
			var want []lk
			var links []pbLinkSpec
			for i := 0; i < 12+rr.Intn(20); i++ {
				cc := st.PutBlock(1, cid.Raw, []byte(fmt.Sprintf("nl-%d-%d", k, i)))
				spec := pbLinkSpec{Tsize: u64p(7), Cid: cc}
				nm := ""
				if i%3 != 1 {
					nm = fmt.Sprintf("e%d", i%7)
					spec.Name = strp(nm)
				}
				links = append(links, spec)
				want = append(want, lk{nm, cc})
			}
			first := map[string]cid.Cid{}
			for _, w := range want {
				if _, ok := first[w.name]; !ok {
					first[w.name] = w.c
				}
			}
			dirT := pb.Data_Directory
			var data []byte
			hasData := false
			if k%2 == 0 {
				data, hasData = mustMarshal(&pb.Data{Type: &dirT}), true // plain directory; otherwise the generic link map
			}
			pn, err := decodePB(encodePB(data, hasData, links))
			if err != nil {
				c.Harness("decode: %v", err)
				return
			}
			ls := st.LinkSystem(true)
			for round := 0; round < rounds; round++ {
				hs := &hookState{seed: c.Seed + uint64(round)}
				node, err := reify(ls, pn)
				if err != nil || node.Kind() != datamodel.Kind_Map {
					c.Violation("C17|reify", "link list: %v", err)
					return
				}
				res := runRound(c, node, 8, hs, int64(c.Seed)+int64(round), func(g int, rr *rand.Rand, node ipld.Node, res *c17Result) {
					for i := 0; i < 10; i++ {
						atomic.AddInt64(&res.ops, 1)
						if i%2 == 0 {
							it := node.MapIterator()
							j := 0
							for !it.Done() {
								kk, v, err := it.Next()
								if err != nil || j >= len(want) {
									res.diff("listing: error %v at pair %d", err, j)
									break
								}
								ks, _ := kk.AsString()
								if got, _ := asCid(v); ks != want[j].name || !got.Equals(want[j].c) {
									res.diff("listing pair %d is %q -> %v on the shared node, %q -> %v alone", j, ks, got, want[j].name, want[j].c)
									break
								}
								j++
							}
							if j != len(want) {
								res.diff("listing yields %d pairs on the shared node, %d alone", j, len(want))
							}
						} else {
							nm := want[rr.Intn(len(want))].name
							v, err := node.LookupByString(nm)
							if err != nil {
								res.diff("lookup of %q failed on the shared node: %v", nm, err)
								continue
							}
							if got, _ := asCid(v); !got.Equals(first[nm]) {
								res.diff("lookup of %q gives %v on the shared node, %v alone", nm, got, first[nm])
							}
						}
					}
				})
				c.Count("rounds", 1)
				c.Count("ops_compared", res.ops)
				c.Count("overlapped_rounds", 1)
				if res.stuck || res.deadlock {
					c.Violation("C17|deadlock|"+res.deadSite, "link list with nameless links: %s", res.deadMsg)
					return
				}
				for _, dmsg := range res.diffs {
					c.Violation("C17|result-differs|link-list", "round %d: %s", round, dmsg)
				}
				c.Sig(fmt.Sprintf("nameless-links|dir=%v", hasData), true)
				if len(res.diffs) > 0 {
					return
				}
			}
		})
	}
	for di, d := range dirs {
		for _, G := range []int{2, 4, 8, 16} {
			for _, inject := range []bool{true, false} {
				di, d, G, inject := di, d, G, inject
				r.Case(fmt.Sprintf("dir/%d/f%d/n%d/warm=%v/G%d/hooks=%v", di, d.Fanout, d.N, d.Warm, G, inject), map[string]any{"fanout": d.Fanout, "entries": d.N, "warm": d.Warm, "goroutines": G, "inject": inject, "rounds": rounds}, func(c *mon.Case) {
					rr := c.Rand()
					st := store.New()
					var names []string
					if d.Family == "crafted" {
						names = gen.SharedPrefixNames(rr, d.N, 27)
					} else {
						names = namesFor(c, dirCase{Family: d.Family, N: d.N})
					}
					entries, model, _ := childEntries(st, names)
					l, _, err := builder.BuildUnixFSShardedDirectory(d.Fanout, multihash.MURMUR3X64_64, entries, st.LinkSystem(false))
					if err != nil {
						c.Harness("build: %v", err)
						return
					}
					ls := st.LinkSystem(true)
					emptyLS := store.New().LinkSystem(true)
					raw, err := loadRaw(ls, linkCid(l))
					if err != nil {
						c.Harness("load: %v", err)
						return
					}
					for round := 0; round < rounds; round++ {
						hs := &hookState{seed: c.Seed + uint64(round), inject: inject}
						hamt.SetVerifHook(hs.at)
						node, err := reify(ls, raw)
						if err != nil {
							c.Violation("C17|reify", "%v", err)
							return
						}
						if d.Warm {
							it := node.MapIterator()
							for !it.Done() {
								it.Next()
							}
						}
						res := runRound(c, node, G, hs, int64(c.Seed)+int64(round), func(g int, rr *rand.Rand, node ipld.Node, res *c17Result) {
							for i := 0; i < 40; i++ {
								atomic.AddInt64(&res.ops, 1)
								switch op := rr.Intn(20); {
								case op < 12:
									name := names[rr.Intn(len(names))]
									v, err := node.LookupByString(name)
									if err != nil {
										res.diff("LookupByString(%q) of a member failed concurrently: %v", name, err)
										continue
									}
									if got, e := asCid(v); e != nil || !got.Equals(model[name]) {
										res.diff("LookupByString(%q) returned %v concurrently, %v alone", name, got, model[name])
									}
								case op < 16:
									name := names[rr.Intn(len(names))] + "\x00~not-a-member"
									if _, err := node.LookupByString(name); err == nil || !isNotFound(err) {
										res.diff("LookupByString(%q) of a non-member returned %v concurrently", name, err)
									}
								case op == 16:
									// handing the shared, already reified node to the constructor again (with a
									// cancelled context and another link system) must hand it back untouched
									cctx, cancel := context.WithCancel(context.Background())
									cancel()
									if got, err := hamt.AttemptHAMTShardFromNode(cctx, node, emptyLS); err != nil || ipld.Node(got) != node {
										res.diff("AttemptHAMTShardFromNode(reified node) returned (%p, %v), want the same node", got, err)
									}
								case op < 18:
									if got := node.Length(); got != int64(len(names)) {
										res.diff("Length() = %d concurrently, %d alone", got, len(names))
									}
								default:
									it := node.MapIterator()
									n := 0
									for !it.Done() {
										k, v, err := it.Next()
										if err != nil {
											res.diff("iteration error concurrently: %v", err)
											break
										}
										ks, _ := k.AsString()
										if got, _ := asCid(v); !got.Equals(model[ks]) {
											res.diff("iteration yielded %q -> %v concurrently", ks, got)
											break
										}
										n++
									}
									if n != len(names) {
										res.diff("iteration yielded %d entries concurrently, %d alone", n, len(names))
									}
								}
							}
						})
						hamt.SetVerifHook(nil)
						c.Count("rounds", 1)
						c.Count("ops_compared", res.ops)
						if hs.maxSeen >= 2 {
							c.Count("overlapped_rounds", 1)
						}
						c.Count("hook_events", int64(len(hs.events)))
						if res.stuck {
							c.Inconclusive("round %d did not finish within the watchdog and is not a provable deadlock", round)
							return
						}
						if res.deadlock {
							c.Violation("C17|deadlock|"+res.deadSite, "fanout %d, %d entries, %d goroutines, hooks=%v, round %d: %s", d.Fanout, d.N, G, inject, round, res.deadMsg)
							return
						}
						for _, dmsg := range res.diffs {
							c.Violation("C17|result-differs|dir", "fanout %d, %d entries, %d goroutines, hooks=%v, round %d: %s", d.Fanout, d.N, G, inject, round, dmsg)
						}
						c.Sig(fmt.Sprintf("dir|f%d|warm=%v|G%d|hooks=%v|%s", d.Fanout, d.Warm, G, inject, hs.hash()), hs.maxSeen >= 2)
						if len(res.diffs) > 0 {
							return
						}
					}
				})
			}
		}
	}
	// damaged directories: one child shard cannot be loaded, or declares another fanout than its
	// parent. What a call returns alone is taken on a fresh (cold) node per call; on the shared node,
	// cold or warmed by other goroutines, every call has to return the same
	for _, damage := range []string{"missing-child", "fanout-mismatch-child", "both"} {
		for _, G := range []int{2, 4, 8, 16} {
			damage, G := damage, G
			r.Case(fmt.Sprintf("damaged-dir/%s/G%d", damage, G), map[string]any{"damage": damage, "goroutines": G, "rounds": rounds}, func(c *mon.Case) {
				rr := c.Rand()
				st := store.New()
				names := namesFor(c, dirCase{Family: "ascii", N: 300})
				entries, _, _ := childEntries(st, names)
				l, _, err := builder.BuildUnixFSShardedDirectory(8, multihash.MURMUR3X64_64, entries, st.LinkSystem(false))
				if err != nil {
					c.Harness("build: %v", err)
					return
				}
				w := walkerFor(st)
				rootN, err := w.Node(linkCid(l))
				if err != nil {
					c.Harness("oracle: %v", err)
					return
				}
				var shardIdx []int
				for i, lk := range rootN.Links {
					if len(lk.Name) == 1 {
						shardIdx = append(shardIdx, i)
					}
				}
				if len(shardIdx) < 3 {
					c.Harness("root has only %d child shards", len(shardIdx))
					return
				}
				mon.Shuffle(rr, shardIdx)
				links := make([]pbLinkSpec, len(rootN.Links))
				for i, lk := range rootN.Links {
					links[i] = pbLinkSpec{Name: strp(lk.Name), Tsize: u64p(lk.Tsize), Cid: lk.Cid}
				}
				if damage != "missing-child" {
					// the same child shard, declaring fanout 16 (same prefix width, valid on its own)
					v := rootN.Links[shardIdx[0]]
					cn, err := w.Node(v.Cid)
					if err != nil || cn.FS == nil {
						c.Harness("oracle: child shard: %v", err)
						return
					}
					m := *cn.FS
					m.Fanout = proto.Uint64(16)
					cl := make([]pbLinkSpec, len(cn.Links))
					for i, lk := range cn.Links {
						cl[i] = pbLinkSpec{Name: strp(lk.Name), Tsize: u64p(lk.Tsize), Cid: lk.Cid}
					}
					links[shardIdx[0]].Cid = st.PutBlock(1, cid.DagProtobuf, encodePB(mustMarshal(&m), true, cl))
				}
				if damage != "fanout-mismatch-child" {
					st.Absent = map[string]bool{rootN.Links[shardIdx[1]].Cid.KeyString(): true}
				}
				root := st.PutBlock(1, cid.DagProtobuf, encodePB(mustMarshal(rootN.FS), true, links))
				ls := st.LinkSystem(true)
				raw, err := loadRaw(ls, root)
				if err != nil {
					c.Harness("load: %v", err)
					return
				}
				lookupOutcome := func(n ipld.Node, name string) string {
					v, err := n.LookupByString(name)
					if err != nil {
						return "error: " + errClass(err)
					}
					cc, e := asCid(v)
					if e != nil {
						return "not a link: " + e.Error()
					}
					return cc.String()
				}
				iterOutcome := func(n ipld.Node) string {
					it := n.MapIterator()
					f := fnv.New64a()
					cnt, errs := 0, 0
					var firstErr string
					for i := 0; !it.Done() && i < 5000; i++ {
						k, v, err := it.Next()
						if err != nil {
							errs++
							if firstErr == "" {
								firstErr = errClass(err)
							}
							continue
						}
						ks, _ := k.AsString()
						cc, _ := asCid(v)
						f.Write([]byte(ks + "=" + cc.String() + ";"))
						cnt++
					}
					return fmt.Sprintf("%d entries (hash %x), %d errors (first: %s)", cnt, f.Sum64(), errs, firstErr)
				}
				fresh := func() ipld.Node {
					n, err := reify(ls, raw)
					if err != nil {
						return nil
					}
					return n
				}
				if fresh() == nil {
					c.Harness("reify of the damaged root failed")
					return
				}
				probes := append([]string(nil), names...)
				mon.Shuffle(rr, probes)
				probes = probes[:120]
				for i := 0; i < 30; i++ {
					probes = append(probes, probes[i]+"\x00~not-a-member")
				}
				alone := map[string]string{}
				classes := map[string]bool{}
				for _, p := range probes {
					alone[p] = lookupOutcome(fresh(), p)
					if strings.HasPrefix(alone[p], "error: ") {
						classes[alone[p]] = true
					}
				}
				aloneLen := fresh().Length()
				aloneIter := iterOutcome(fresh())
				c.Count("damaged_dir_error_classes", int64(len(classes)))
				for round := 0; round < rounds; round++ {
					hs := &hookState{seed: c.Seed + uint64(round), inject: round%2 == 0}
					hamt.SetVerifHook(hs.at)
					node := fresh()
					if round%3 == 2 {
						// warmed by one sequential pass first
						iterOutcome(node)
					}
					res := runRound(c, node, G, hs, int64(c.Seed)+int64(round), func(g int, rr *rand.Rand, node ipld.Node, res *c17Result) {
						for i := 0; i < 40; i++ {
							atomic.AddInt64(&res.ops, 1)
							switch op := rr.Intn(20); {
							case op < 16:
								p := probes[rr.Intn(len(probes))]
								if got := lookupOutcome(node, p); got != alone[p] {
									res.diff("LookupByString(%q) gives %q on the shared node, %q alone", p, got, alone[p])
								}
							case op < 18:
								if got := node.Length(); got != aloneLen {
									res.diff("Length() = %d on the shared node, %d alone", got, aloneLen)
								}
							default:
								if got := iterOutcome(node); got != aloneIter {
									res.diff("iteration gives %q on the shared node, %q alone", got, aloneIter)
								}
							}
						}
					})
					hamt.SetVerifHook(nil)
					c.Count("rounds", 1)
					c.Count("ops_compared", res.ops)
					if hs.maxSeen >= 2 {
						c.Count("overlapped_rounds", 1)
					}
					if res.stuck {
						c.Inconclusive("round %d did not finish within the watchdog and is not a provable deadlock", round)
						return
					}
					if res.deadlock {
						c.Violation("C17|deadlock|"+res.deadSite, "damaged directory (%s), %d goroutines, round %d: %s", damage, G, round, res.deadMsg)
						return
					}
					for _, dmsg := range res.diffs {
						c.Violation("C17|result-differs|damaged-dir", "%s, %d goroutines, round %d: %s", damage, G, round, dmsg)
					}
					c.Sig(fmt.Sprintf("damaged-dir|%s|G%d|%s", damage, G, hs.hash()), hs.maxSeen >= 2)
					if len(res.diffs) > 0 {
						return
					}
				}
			})
		}
	}
	// plain (unsharded) directories are reified nodes as well: cold node per round, lookups through
	// every entry point, listing and Length
	for _, n := range []int{70, 400, 2500} {
		for _, G := range []int{2, 8, 16} {
			n, G := n, G
			r.Case(fmt.Sprintf("plain-dir/n%d/G%d", n, G), map[string]any{"entries": n, "goroutines": G, "rounds": rounds}, func(c *mon.Case) {
				st := store.New()
				names := namesFor(c, dirCase{Family: "ascii", N: n})
				entries, model, _ := childEntries(st, names)
				l, _, err := builder.BuildUnixFSDirectory(entries, st.LinkSystem(false))
				if err != nil {
					c.Harness("build: %v", err)
					return
				}
				ls := st.LinkSystem(true)
				raw, err := loadRaw(ls, linkCid(l))
				if err != nil {
					c.Harness("load: %v", err)
					return
				}
				for round := 0; round < rounds; round++ {
					hs := &hookState{seed: c.Seed + uint64(round)}
					node, err := reify(ls, raw)
					if err != nil || node.Kind() != datamodel.Kind_Map {
						c.Violation("C17|reify", "plain directory: %v", err)
						return
					}
					if _, sharded := node.(interface{ FieldFanout() }); sharded {
						return
					}
					res := runRound(c, node, G, hs, int64(c.Seed)+int64(round), func(g int, rr *rand.Rand, node ipld.Node, res *c17Result) {
						for i := 0; i < 30; i++ {
							atomic.AddInt64(&res.ops, 1)
							name := names[rr.Intn(len(names))]
							switch op := rr.Intn(12); {
							case op < 7:
								var v ipld.Node
								var err error
								switch op % 3 {
								case 0:
									v, err = node.LookupByString(name)
								case 1:
									v, err = node.LookupByNode(basicnode.NewString(name))
								default:
									v, err = node.LookupBySegment(datamodel.PathSegmentOfString(name))
								}
								if err != nil {
									res.diff("lookup of member %q failed on the shared node: %v", name, err)
									continue
								}
								if got, e := asCid(v); e != nil || !got.Equals(model[name]) {
									res.diff("lookup of %q gives %v on the shared node, %v alone", name, got, model[name])
								}
							case op < 9:
								if _, err := node.LookupByString(name + "\x00~not-a-member"); err == nil || !isNotFound(err) {
									res.diff("lookup of a non-member gives %v on the shared node", err)
								}
							case op == 9:
								if nl, ok := node.(nativeLookup); ok {
									if lk := nl.Lookup(pbString(name)); lk == nil || !linkCid(lk.Link()).Equals(model[name]) {
										res.diff("native Lookup(%q) gives %v on the shared node", name, lk)
									}
								}
							case op == 10:
								if got := node.Length(); got != int64(len(names)) {
									res.diff("Length() = %d on the shared node, %d alone", got, len(names))
								}
							default:
								it := node.MapIterator()
								cnt := 0
								for !it.Done() {
									k, v, err := it.Next()
									if err != nil {
										res.diff("listing error on the shared node: %v", err)
										break
									}
									ks, _ := k.AsString()
									if got, _ := asCid(v); !got.Equals(model[ks]) {
										res.diff("listing yields %q -> %v on the shared node", ks, got)
										break
									}
									cnt++
								}
								if cnt != len(names) {
									res.diff("listing yields %d entries on the shared node, %d alone", cnt, len(names))
								}
							}
						}
					})
					c.Count("rounds", 1)
					c.Count("ops_compared", res.ops)
					c.Count("overlapped_rounds", 1)
					if res.stuck {
						c.Inconclusive("round %d did not finish within the watchdog and is not a provable deadlock", round)
						return
					}
					if res.deadlock {
						c.Violation("C17|deadlock|"+res.deadSite, "plain directory of %d entries, %d goroutines, round %d: %s", n, G, round, res.deadMsg)
						return
					}
					for _, dmsg := range res.diffs {
						c.Violation("C17|result-differs|plain-dir", "%d entries, %d goroutines, round %d: %s", n, G, round, dmsg)
					}
					c.Sig(fmt.Sprintf("plain-dir|n%d|G%d", n, G), true)
					if len(res.diffs) > 0 {
						return
					}
				}
			})
		}
	}
	type fileCfg struct {
		Name string
		Make func(st *store.Store, rr *rand.Rand) (cid.Cid, []byte)
	}
	builtFile := func(w int, ch string, n int) func(st *store.Store, rr *rand.Rand) (cid.Cid, []byte) {
		return func(st *store.Store, rr *rand.Rand) (cid.Cid, []byte) {
			content := gen.Content(rr, "rand", n)
			var l ipld.Link
			withWidth(w, func() { l, _, _ = builder.BuildUnixFSFile(bytes.NewReader(content), ch, st.LinkSystem(false)) })
			return linkCid(l), content
		}
	}
	handF := func(o handFileOpts, n, k int) func(st *store.Store, rr *rand.Rand) (cid.Cid, []byte) {
		return func(st *store.Store, rr *rand.Rand) (cid.Cid, []byte) {
			content := gen.Content(rr, "rand", n)
			root, _ := handFile(st, splitChunks(content, k), o)
			return root, content
		}
	}
	noData := func(st *store.Store, rr *rand.Rand) (cid.Cid, []byte) {
		// a dag-pb root with links and no Data field at all, over raw leaves
		content := gen.Content(rr, "rand", 510)
		var links []pbLinkSpec
		for _, ch := range splitChunks(content, 30) {
			links = append(links, pbLinkSpec{Name: strp(""), Tsize: u64p(uint64(len(ch))), Cid: st.PutBlock(1, cid.Raw, ch)})
		}
		return st.PutBlock(1, cid.DagProtobuf, encodePB(nil, false, links)), content
	}
	files := []fileCfg{
		{"direct-nodata", noData},
		{"built-w3-4level", builtFile(3, "size-16", 1000)},
		{"built-single-block", builtFile(3, "size-4096", 700)},
		{"hand-single-pb-inline", func(st *store.Store, rr *rand.Rand) (cid.Cid, []byte) {
			// one dag-pb block with the content inline (what the reference writes with protobuf leaves)
			content := gen.Content(rr, "rand", 300)
			t2 := pb.Data_File
			return st.PutBlock(1, cid.DagProtobuf, encodePB(mustMarshal(&pb.Data{Type: &t2, Data: content, Filesize: proto.Uint64(uint64(len(content)))}), true, nil)), content
		}},
		{"built-single-block+nodereifier", builtFile(3, "size-4096", 500)},
		{"built-w174-2level", builtFile(174, "size-1024", 40960)},
		{"hand-pb-nobs", handF(handFileOpts{Width: 3, PBLeaves: true, NoBlockSize: true, LeafType: 2}, 600, 20)},
		{"hand-pb-nobs-nofs", handF(handFileOpts{Width: 2, PBLeaves: true, NoBlockSize: true, NoFileSize: true, LeafType: 0}, 300, 10)},
		{"hand-pb-sized", handF(handFileOpts{Width: 4, PBLeaves: true, LeafType: 2}, 800, 25)},
		{"hand-pb-leaf-mtimes", handF(handFileOpts{Width: 4, PBLeaves: true, LeafType: 2, LeafMtimes: true}, 600, 25)},
		{"built-w3-3level+nodereifier", builtFile(3, "size-16", 300)},
		{"hand-pb-sized+nodereifier", handF(handFileOpts{Width: 4, PBLeaves: true, LeafType: 2}, 400, 25)},
	}
	for _, fcfg := range files {
		for _, G := range []int{2, 4, 8, 16} {
			for _, inject := range []bool{true, false} {
				fcfg, G, inject := fcfg, G, inject
				r.Case(fmt.Sprintf("file/%s/G%d/hooks=%v", fcfg.Name, G, inject), map[string]any{"file": fcfg.Name, "goroutines": G, "inject": inject, "rounds": rounds}, func(c *mon.Case) {
					st := store.New()
					root, content := fcfg.Make(st, c.Rand())
					ls := st.LinkSystem(true)
					if strings.HasSuffix(fcfg.Name, "+nodereifier") {
						// the caller's link system reifies every block it loads
						ls = st.LinkSystemCfg(true, false, true)
					}
					raw, err := loadRaw(st.LinkSystem(false), root)
					if err != nil {
						c.Harness("load: %v", err)
						return
					}
					for round := 0; round < rounds; round++ {
						hs := &hookState{seed: c.Seed + uint64(round), inject: inject}
						file.SetVerifHook(hs.at)
						var node ipld.Node
						if strings.HasPrefix(fcfg.Name, "direct-") {
							node, err = file.NewUnixFSFile(bg, raw, ls) // Reify would not make a file of this root
						} else {
							node, err = reify(ls, raw)
						}
						if err != nil {
							c.Violation("C17|reify", "%v", err)
							return
						}
						res := runRound(c, node, G, hs, int64(c.Seed)+int64(round), func(g int, rr *rand.Rand, node ipld.Node, res *c17Result) {
							lb := node.(largeBytes)
							for i := 0; i < 6; i++ {
								atomic.AddInt64(&res.ops, 1)
								rs, err := lb.AsLargeBytes()
								if err != nil {
									res.diff("AsLargeBytes: %v", err)
									return
								}
								switch rr.Intn(4) {
								case 0:
									end, err := rs.Seek(0, io.SeekEnd)
									if err != nil || end != int64(len(content)) {
										res.diff("Seek(0,End) = (%d,%v) concurrently, %d alone", end, err, len(content))
									}
									rs.Seek(0, io.SeekStart)
									b, err := io.ReadAll(rs)
									if err != nil || !bytes.Equal(b, content) {
										res.diff("ReadAll after seeks returned %d bytes, err %v concurrently", len(b), err)
									}
								case 1:
									a := rr.Intn(len(content))
									n := 1 + rr.Intn(len(content)-a)
									if _, err := rs.Seek(int64(a), io.SeekStart); err != nil {
										res.diff("Seek: %v", err)
										continue
									}
									buf := make([]byte, n)
									if _, err := io.ReadFull(rs, buf); err != nil || !bytes.Equal(buf, content[a:a+n]) {
										res.diff("range [%d,%d) read differs concurrently (err %v)", a, a+n, err)
									}
								case 2:
									b, err := node.AsBytes()
									if err != nil || !bytes.Equal(b, content) {
										res.diff("AsBytes returned %d bytes, err %v concurrently", len(b), err)
									}
								default:
									a := rr.Intn(len(content))
									if _, err := rs.Seek(int64(a-len(content)), io.SeekEnd); err != nil {
										res.diff("Seek from end: %v", err)
										continue
									}
									b, err := io.ReadAll(rs)
									if err != nil || !bytes.Equal(b, content[a:]) {
										res.diff("tail read from %d differs concurrently (err %v)", a, err)
									}
								}
							}
						})
						file.SetVerifHook(nil)
						c.Count("rounds", 1)
						c.Count("ops_compared", res.ops)
						if hs.maxSeen >= 2 || G >= 2 {
							c.Count("overlapped_rounds", 1)
						}
						c.Count("hook_events", int64(len(hs.events)))
						if res.stuck {
							c.Inconclusive("round %d did not finish within the watchdog and is not a provable deadlock", round)
							return
						}
						if res.deadlock {
							c.Violation("C17|deadlock|"+res.deadSite, "%s, %d goroutines, hooks=%v, round %d: %s", fcfg.Name, G, inject, round, res.deadMsg)
							return
						}
						for _, dmsg := range res.diffs {
							c.Violation("C17|result-differs|file", "%s, %d goroutines, hooks=%v, round %d: %s", fcfg.Name, G, inject, round, dmsg)
						}
						c.Sig(fmt.Sprintf("file|%s|G%d|hooks=%v|%s", fcfg.Name, G, inject, hs.hash()), true)
						if len(res.diffs) > 0 {
							return
						}
					}
				})
			}
		}
	}
}
