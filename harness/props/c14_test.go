package props

import (
	"strings"
	"bytes"
	"fmt"
	"sort"
	"testing"

	"github.com/gogo/protobuf/proto"
	pb "github.com/ipfs/boxo/ipld/unixfs/pb"
	"github.com/ipfs/go-cid"
	"github.com/ipfs/go-unixfsnode"
	"github.com/ipfs/go-unixfsnode/data"
	"github.com/ipfs/go-unixfsnode/hamt"
	dagpb "github.com/ipld/go-codec-dagpb"
	"github.com/ipld/go-ipld-prime"
	"github.com/ipld/go-ipld-prime/datamodel"
	"github.com/ipld/go-ipld-prime/fluent/qp"
	cidlink "github.com/ipld/go-ipld-prime/linking/cid"
	"github.com/ipld/go-ipld-prime/node/basicnode"

	"verifharness/gen"
	"verifharness/mon"
	"verifharness/oracle"
	"verifharness/store"
)

// c14Input is one generated input node with the result class the statement
// of C14 prescribes for it.
type c14Input struct {
	Class  string // input class label
	Expect string // same | linkmap | bytes | map | error
	Node   ipld.Node
	Block  []byte // stored block bytes when the node was decoded from a block
	Canon  []byte // what the dag-pb codec writes for Node (equals Block unless the block's links were not in canonical order)
	Names  []string
	Why    string
}

func decodePB(raw []byte) (dagpb.PBNode, error) {
	nb := dagpb.Type.PBNode.NewBuilder()
	if err := dagpb.DecodeBytes(nb, raw); err != nil {
		return nil, err
	}
	return nb.Build().(dagpb.PBNode), nil
}

func TestC14(t *testing.T) {
	r := mon.Start(t, "C14")
	defer r.Close()
	reps := r.Pick(16, 160)
	for rep := 0; rep < reps; rep++ {
		rep := rep
		r.Case(fmt.Sprintf("table/%d", rep), map[string]any{"rep": rep, "classes": "non-dag-pb kinds, dag-pb x {no data, garbage, 6 types, bad types, shard parameter variants} x {links, no links}"}, func(c *mon.Case) {
			rr := c.Rand()
			st := store.New()
			// children that really exist, so that preload variants can load them
			unsorted := rep%2 == 1
			mkChildren := func(n int, asShardLinks bool, pad int) ([]pbLinkSpec, []string) {
				var ls []pbLinkSpec
				var names []string
				for i := 0; i < n; i++ {
					data := []byte(fmt.Sprintf("leaf-%d-%d", rep, rr.Intn(1000)))
					cc := st.PutBlock(1, cid.Raw, data)
					name := fmt.Sprintf("n%02d", i)
					if !asShardLinks && i%2 == 1 {
						// names that parse as integers are names all the same
						name = []string{"0", "7", "2019", "-1", "08", "1e3"}[(i/2+rep)%6]
					}
					if asShardLinks {
						name = fmt.Sprintf("%0*X%s", pad, i, name)
					}
					names = append(names, name)
					ls = append(ls, pbLinkSpec{Name: strp(name), Tsize: u64p(uint64(len(data))), Cid: cc})
				}
				sort.Slice(ls, func(i, j int) bool { return *ls[i].Name < *ls[j].Name })
				sort.Strings(names)
				if !asShardLinks && n > 1 && unsorted {
					// a block whose links are not in name order (decodable; only the encoder sorts)
					ls[0], ls[n-1] = ls[n-1], ls[0]
					c.Count("unsorted_link_lists", 1)
					// ... and a link without a name after named ones (it is addressed by the empty name)
					data := []byte(fmt.Sprintf("nameless-%d-%d", rep, rr.Intn(1000)))
					ls = append(ls, pbLinkSpec{Tsize: u64p(uint64(len(data))), Cid: st.PutBlock(1, cid.Raw, data)})
					names = append(names, "")
				}
				return ls, names
			}
			var inputs []c14Input
			add := func(class, expect string, data []byte, hasData bool, links []pbLinkSpec, names []string, why string) {
				blk := encodePB(data, hasData, links)
				n, err := decodePB(blk)
				if err != nil {
					c.Harness("cannot decode generated dag-pb block: %v", err)
					return
				}
				st.PutBlock(1, cid.DagProtobuf, blk)
				var canon bytes.Buffer
				if err := dagpb.Encode(n, &canon); err != nil {
					c.Harness("cannot re-encode generated dag-pb block: %v", err)
					return
				}
				inputs = append(inputs, c14Input{Class: class, Expect: expect, Node: n, Block: blk, Canon: canon.Bytes(), Names: names, Why: why})
			}
			// A. nodes that are not dag-pb
			lnk := cidlink.Link{Cid: st.PutBlock(1, cid.Raw, []byte("x"))}
			mapNode, _ := qp.BuildMap(basicnode.Prototype.Any, 2, func(ma datamodel.MapAssembler) {
				qp.MapEntry(ma, "Links", qp.List(0, func(datamodel.ListAssembler) {}))
				qp.MapEntry(ma, "Data", qp.Bytes([]byte{8, 2}))
			})
			listNode, _ := qp.BuildList(basicnode.Prototype.Any, 1, func(la datamodel.ListAssembler) { qp.ListEntry(la, qp.Int(1)) })
			for name, n := range map[string]ipld.Node{
				"bool": basicnode.NewBool(true), "int": basicnode.NewInt(5), "float": basicnode.NewFloat(1.5), "string": basicnode.NewString("s"),
				"bytes": basicnode.NewBytes([]byte{8, 2}), "link": basicnode.NewLink(lnk), "null": datamodel.Null, "pb-shaped-map": mapNode, "list": listNode,
			} {
				inputs = append(inputs, c14Input{Class: "non-dagpb/" + name, Expect: "same", Node: n})
			}
			// B. dag-pb
			withLinks := func(n int) ([]pbLinkSpec, []string) { return mkChildren(n, false, 0) }
			for _, nl := range []int{0, 1 + rr.Intn(4)} {
				ls, names := withLinks(nl)
				lc := fmt.Sprintf("links%d", min(nl, 1))
				add("no-data/"+lc, "linkmap", nil, false, ls, names, "no Data field")
				g := make([]byte, 1+rr.Intn(8))
				rr.Read(g)
				g[0] = 0x0f // wire type 7: undecodable
				add("garbage-data/"+lc, "linkmap", g, true, ls, names, "undecodable Data")
				// structurally malformed protobuf that also the reference decoder refuses: cut short
				// (incl. a packed blocksizes run ending inside a varint) or with an over-long varint
				for k := 0; k < 12; k++ {
					var bad []byte
					why := ""
					switch k {
					case 9:
						bad, why = []byte{0x08, 0x02, 0x22, 0x02, 0x01, 0x80, 0x42, 0x02, 0x08, 0x05}, "packed blocksizes ending inside a varint, followed by a well-formed mtime"
					case 10:
						bad, why = []byte{0x08, 0x01, 0x42, 0x04, 0x08, 0x05, 0x15, 0x01, 0x22, 0x02, 0x01, 0x02}, "mtime with truncated nanoseconds, followed by well-formed packed blocksizes"
					case 11:
						bad, why = []byte{0x08, 0x02, 0x42, 0x02, 0x08, 0x80, 0x42, 0x02, 0x08, 0x05}, "mtime whose seconds end inside a varint, followed by a well-formed mtime"
					case 6, 7, 8:
						// a field numbered 0, which protobuf does not have: well-formed around it, illegal all the same
						m := msgFor(uint64(1+rr.Intn(5)), rr.Intn(128), rr.Intn(40))
						enc := gen.Encode(rr, m, gen.Pres{Kind: "ordered"})
						zero := [][]byte{{0x00, 0x00}, {0x02, 0x01, 'x'}, {0x05, 1, 2, 3, 4}}[k-6]
						if k == 7 {
							bad = append(append([]byte(nil), zero...), enc...)
						} else {
							bad = append(append([]byte(nil), enc...), zero...)
						}
						why = "a field with number 0"
					case 0:
						bad, why = []byte{0x08, 0x02, 0x22, 0x02, 0x05, 0x80}, "packed blocksizes run ending inside a varint"
					case 1:
						bad, why = []byte{0x08, byte(1 + rr.Intn(5)), 0x22, 0x03, 0x01, 0xff, 0xff}, "packed blocksizes run ending inside a varint"
					default:
						m := msgFor(uint64(rr.Intn(6)), rr.Intn(128), rr.Intn(40))
						enc := gen.Encode(rr, m, gen.Pres{Kind: "permuted", Packed: rr.Intn(2) == 0, Unknown: rr.Intn(3)})
						if len(enc) < 2 {
							continue
						}
						if k%2 == 0 {
							bad, why = enc[:1+rr.Intn(len(enc)-1)], "message cut short"
						} else {
							p := rr.Intn(len(enc))
							bad = append(append(append([]byte(nil), enc[:p]...), 0xff, 0xff, 0xff, 0xff, 0xff, 0xff, 0xff, 0xff, 0xff, 0x7f), enc[p:]...)
							why = "over-long varint spliced in"
						}
					}
					var probe pb.Data
					if proto.Unmarshal(bad, &probe) == nil {
						continue // still a well-formed message
					}
					c.Count("malformed_payloads", 1)
					add(fmt.Sprintf("malformed-data-%d/%s", k, lc), "linkmap", bad, true, ls, names, why+fmt.Sprintf(" (%x)", bad))
				}
				add("empty-data/"+lc, "linkmap-or-typed", []byte{}, true, ls, names, "empty Data (no type field)")
				for _, t := range []pb.Data_DataType{pb.Data_Symlink, pb.Data_Metadata} {
					tt := t
					add("type-"+t.String()+"/"+lc, "linkmap", mustMarshal(&pb.Data{Type: &tt, Data: []byte("target")}), true, ls, names, "symlink/metadata")
				}
				for _, t := range []int32{6, 7, 100, -1} {
					tt := pb.Data_DataType(t)
					add(fmt.Sprintf("type-out-of-range-%d/%s", t, lc), "error", mustMarshal(&pb.Data{Type: &tt}), true, ls, names, "unknown type")
				}
				dt := pb.Data_Directory
				add("type-Directory/"+lc, "map", mustMarshal(&pb.Data{Type: &dt}), true, ls, names, "directory")
				// type numbers beyond 32 bits whose low bits look like a valid type (hand-encoded varint)
				for _, big := range []uint64{1<<32 + 2, 1 << 33, 5<<40 + 1, 1<<62 + 5, 1<<63 + 2, 1<<32 + 5} {
					add(fmt.Sprintf("type-out-of-range-%d/%s", big, lc), "error", gen.Encode(rr, gen.Msg{Type: big}, gen.Pres{Kind: "ordered"}), true, ls, names, "unknown type (wide)")
				}
				// the same typed nodes with the DataType field serialised last (legal protobuf)
				add("type-Directory-typelast/"+lc, "map", gen.Encode(rr, gen.Msg{Type: 1, FileSize: gen.U64(0)}, gen.Pres{Kind: "reversed"}), true, ls, names, "directory, type field last")
				add("type-Symlink-typelast/"+lc, "linkmap", gen.Encode(rr, gen.Msg{Type: 4, HasData: true, Data: []byte("t")}, gen.Pres{Kind: "reversed"}), true, ls, names, "symlink, type field last")
				add("type-out-of-range-9-typelast/"+lc, "error", gen.Encode(rr, gen.Msg{Type: 9, FileSize: gen.U64(1)}, gen.Pres{Kind: "reversed"}), true, ls, names, "unknown type, type field last")
			}
			// typed nodes whose Data carries fields this library does not know (a later UnixFS revision, a
			// vendor extension): unknown fields are skipped, the type still decides
			for xi, ext := range [][]byte{{0x78, 0x01}, {0xA2, 0x06, 0x02, 'x', 'y'}, {0xFD, 0x07, 1, 2, 3, 4}} {
				wrap := func(m []byte) []byte {
					if xi%2 == 0 {
						return append(append([]byte(nil), m...), ext...)
					}
					return append(append([]byte(nil), ext...), m...)
				}
				t1, t2, t0, t5, t9 := pb.Data_Directory, pb.Data_File, pb.Data_Raw, pb.Data_HAMTShard, pb.Data_DataType(9)
				add(fmt.Sprintf("unknown-field-%d/type-Directory", xi), "map", wrap(mustMarshal(&pb.Data{Type: &t1})), true, nil, nil, "directory with an unknown field")
				add(fmt.Sprintf("unknown-field-%d/type-File", xi), "bytes", wrap(mustMarshal(&pb.Data{Type: &t2, Data: []byte("inline"), Filesize: proto.Uint64(6)})), true, nil, nil, "file with an unknown field")
				add(fmt.Sprintf("unknown-field-%d/type-Raw", xi), "bytes", wrap(mustMarshal(&pb.Data{Type: &t0, Data: []byte("inline")})), true, nil, nil, "raw with an unknown field")
				add(fmt.Sprintf("unknown-field-%d/shard-f8", xi), "map", wrap(mustMarshal(&pb.Data{Type: &t5, HashType: proto.Uint64(0x22), Fanout: proto.Uint64(8), Data: []byte{}})), true, nil, nil, "shard with an unknown field")
				add(fmt.Sprintf("unknown-field-%d/type-out-of-range-9", xi), "error", wrap(mustMarshal(&pb.Data{Type: &t9})), true, nil, nil, "unknown type with an unknown field")
			}
			add("type-File-typelast/nolinks", "bytes", gen.Encode(rr, gen.Msg{Type: 2, HasData: true, Data: []byte("inline"), FileSize: gen.U64(6)}, gen.Pres{Kind: "reversed"}), true, nil, nil, "file, type field last")
			add("type-Raw-typelast/nolinks", "bytes", gen.Encode(rr, gen.Msg{Type: 0, HasData: true, Data: []byte("inline")}, gen.Pres{Kind: "reversed"}), true, nil, nil, "raw, type field last")
			add("shard/valid-f8-typelast", "map", gen.Encode(rr, gen.Msg{Type: 5, HashType: gen.U64(0x22), Fanout: gen.U64(8), HasData: true, Data: []byte{}}, gen.Pres{Kind: "reversed"}), true, nil, nil, "shard, type field last")
			add("shard/fanout-24-typelast", "error", gen.Encode(rr, gen.Msg{Type: 5, HashType: gen.U64(0x22), Fanout: gen.U64(24), HasData: true, Data: []byte{}}, gen.Pres{Kind: "reversed"}), true, nil, nil, "invalid shard, type field last")
			// files: raw / file types, no links (inline data present, empty, absent) and with links
			for _, t := range []pb.Data_DataType{pb.Data_File, pb.Data_Raw} {
				tt := t
				for vi, d := range [][]byte{[]byte("inline bytes"), {}, nil} {
					m := &pb.Data{Type: &tt, Data: d}
					if vi == 0 {
						m.Filesize = proto.Uint64(uint64(len(d)))
					}
					add(fmt.Sprintf("type-%s/nolinks/data%d", t, vi), "bytes", mustMarshal(m), true, nil, nil, "single-block file")
				}
				ls, names := withLinks(1 + rr.Intn(3))
				m := &pb.Data{Type: &tt}
				var total uint64
				for _, l := range ls {
					m.Blocksizes = append(m.Blocksizes, *l.Tsize)
					total += *l.Tsize
				}
				m.Filesize = &total
				for i := range ls {
					ls[i].Name = strp("")
				}
				_ = names
				add(fmt.Sprintf("type-%s/links", t), "bytes", mustMarshal(m), true, ls, nil, "multi-block file")
			}
			// shards: valid and every kind of invalid parameter
			st5 := pb.Data_HAMTShard
			type sv struct {
				name   string
				expect string
				m      *pb.Data
				links  int
				pad    int
			}
			mur := proto.Uint64(0x22)
			bf := func(n int, fill byte) []byte { return bytes.Repeat([]byte{fill}, n) }
			svs := []sv{
				{"valid-f8", "map", &pb.Data{Type: &st5, HashType: mur, Fanout: proto.Uint64(8), Data: []byte{0x07}}, 3, 1},
				{"valid-f256", "map", &pb.Data{Type: &st5, HashType: mur, Fanout: proto.Uint64(256), Data: append(bf(31, 0), 0x03)}, 2, 2},
				{"valid-f1024", "map", &pb.Data{Type: &st5, HashType: mur, Fanout: proto.Uint64(1024), Data: []byte{0x01}}, 1, 3},
				{"valid-empty-no-bitfield", "map", &pb.Data{Type: &st5, HashType: mur, Fanout: proto.Uint64(16)}, 0, 1},
				{"valid-empty-bitfield", "map", &pb.Data{Type: &st5, HashType: mur, Fanout: proto.Uint64(16), Data: []byte{}}, 0, 1},
				{"no-hashtype", "error", &pb.Data{Type: &st5, Fanout: proto.Uint64(8), Data: []byte{1}}, 1, 1},
				{"hashtype-sha256", "error", &pb.Data{Type: &st5, HashType: proto.Uint64(0x12), Fanout: proto.Uint64(8), Data: []byte{1}}, 1, 1},
				{"hashtype-0", "error", &pb.Data{Type: &st5, HashType: proto.Uint64(0), Fanout: proto.Uint64(8), Data: []byte{1}}, 1, 1},
				{"no-fanout", "error", &pb.Data{Type: &st5, HashType: mur, Data: []byte{1}}, 1, 1},
				{"no-bitfield-with-links", "error", &pb.Data{Type: &st5, HashType: mur, Fanout: proto.Uint64(8)}, 2, 1},
				{"bitfield-too-long", "error", &pb.Data{Type: &st5, HashType: mur, Fanout: proto.Uint64(8), Data: []byte{0, 1, 1}}, 1, 1},
				{"bitfield-too-long-zero-padded", "error", &pb.Data{Type: &st5, HashType: mur, Fanout: proto.Uint64(8), Data: []byte{0, 1}}, 1, 1},
				{"bitfield-too-long-zero-padded-f256", "error", &pb.Data{Type: &st5, HashType: mur, Fanout: proto.Uint64(256), Data: append(bf(32, 0), 0x01)}, 1, 2},
				{"bitfield-too-long-all-zero", "error", &pb.Data{Type: &st5, HashType: mur, Fanout: proto.Uint64(16), Data: bf(3, 0)}, 0, 1},
			}
			for _, f := range []uint64{0, 1, 2, 3, 4, 6, 12, 24, 100, 1000, 2048, 4096, 1 << 20, 1 << 40, 1 << 62, 1 << 63, ^uint64(0)} {
				for _, withBF := range []bool{true, false} {
					m := &pb.Data{Type: &st5, HashType: mur, Fanout: proto.Uint64(f)}
					if withBF {
						m.Data = []byte{}
					}
					svs = append(svs, sv{fmt.Sprintf("fanout-%d-bf%v", f, withBF), "error", m, 0, 1})
					if withBF {
						m2 := *m
						m2.Data = []byte{0x01}
						svs = append(svs, sv{fmt.Sprintf("fanout-%d-links", f), "error", &m2, 1, 1})
					}
				}
			}
			for _, s := range svs {
				ls, names := mkChildren(s.links, true, s.pad)
				add("shard/"+s.name, s.expect, mustMarshal(s.m), true, ls, names, "shard parameters")
			}

			// a valid root shard over a child shard with invalid parameters: the lazy variants reify the
			// root alone, the preload variant reifies every shard and has to report the invalid one
			for _, s := range svs {
				if s.expect != "error" || s.links != 0 || rr.Intn(3) != 0 {
					if !(s.expect == "error" && s.links == 1 && s.pad == 1) {
						continue
					}
				}
				cls, _ := mkChildren(s.links, true, s.pad)
				childCid := st.PutBlock(1, cid.DagProtobuf, encodePB(mustMarshal(s.m), true, cls))
				root := mustMarshal(&pb.Data{Type: &st5, HashType: mur, Fanout: proto.Uint64(8), Data: []byte{0x04}})
				add("shard/valid-root-over-child-"+s.name, "map-lazy-error-preload", root, true, []pbLinkSpec{{Name: strp("2"), Tsize: u64p(1), Cid: childCid}}, nil, "child shard with invalid parameters")
			}

			// a child shard that is valid on its own but declares another fanout than its parent - also one
			// with the same number of prefix digits (256 over 128, 1024 over 512, 16 over 8)
			for _, pc := range [][2]uint64{{256, 128}, {256, 32}, {1024, 512}, {16, 8}, {256, 16}, {8, 16}} {
				pad := oracle.PadLen(pc[1])
				cls, _ := mkChildren(1, true, pad)
				childData := mustMarshal(&pb.Data{Type: &st5, HashType: mur, Fanout: proto.Uint64(pc[1]), Data: []byte{0x01}})
				childCid := st.PutBlock(1, cid.DagProtobuf, encodePB(childData, true, cls))
				root := mustMarshal(&pb.Data{Type: &st5, HashType: mur, Fanout: proto.Uint64(pc[0]), Data: []byte{0x04}})
				add(fmt.Sprintf("shard/f%d-root-over-f%d-child", pc[0], pc[1]), "map-lazy-error-preload", root, true, []pbLinkSpec{{Name: strp(fmt.Sprintf("%0*X", oracle.PadLen(pc[0]), 2)), Tsize: u64p(1), Cid: childCid}}, nil, "child shard with another fanout than its parent")
			}

			// nodes that are already reified (ADLs, not dag-pb): returned unchanged by every variant
			{
				pls := st.LinkSystem(true)
				var adls []c14Input
				for _, in := range inputs {
					if in.Block == nil || in.Expect == "error" || in.Expect == "same" {
						continue
					}
					if rn, err := reify(pls, in.Node); err == nil && rn != nil && rn != in.Node {
						adls = append(adls, c14Input{Class: "already-reified/" + in.Class, Expect: "same", Node: rn})
					}
				}
				inputs = append(inputs, adls...)
			}
			// shard-shaped parameters on a node of another type must not make it a shard
			for _, t := range []pb.Data_DataType{pb.Data_Directory, pb.Data_File, pb.Data_Raw, pb.Data_Symlink, pb.Data_Metadata} {
				tt := t
				ls2, names := mkChildren(2, true, 1)
				imp := mustMarshal(&pb.Data{Type: &tt, HashType: mur, Fanout: proto.Uint64(8), Data: []byte{0x03}})
				blk := encodePB(imp, true, ls2)
				pn, err := decodePB(blk)
				if err != nil {
					continue
				}
				impCid := st.PutBlock(1, cid.DagProtobuf, blk)
				c.Count("nodes", 1)
				c.Guard("hamt constructors on "+t.String(), func() {
					if n, err := hamt.AttemptHAMTShardFromNode(bg, pn, st.LinkSystem(false)); err == nil {
						c.Violation("C14|impostor-shard|AttemptHAMTShardFromNode", "a %s node carrying hashType/fanout was accepted as a HAMT shard (%T)", t, n)
					}
					if d, derr := data.DecodeUnixFSData(imp); derr == nil {
						if n, err := hamt.NewUnixFSHAMTShard(bg, pn, d, st.LinkSystem(false)); err == nil {
							c.Violation("C14|impostor-shard|NewUnixFSHAMTShard", "a %s node carrying hashType/fanout was accepted as a HAMT shard (%T)", t, n)
						}
					}
				})
				// ... nor when it is linked as a child of a genuine shard
				root := mustMarshal(&pb.Data{Type: &st5, HashType: mur, Fanout: proto.Uint64(8), Data: []byte{0x01}})
				rblk := encodePB(root, true, []pbLinkSpec{{Name: strp("0"), Tsize: u64p(1), Cid: impCid}})
				rn, _ := decodePB(rblk)
				c.Guard("genuine shard over impostor child", func() {
					n, err := reify(st.LinkSystem(false), rn)
					if err != nil {
						return
					}
					it := n.MapIterator()
					for i := 0; !it.Done() && i < 10; i++ {
						k, _, err := it.Next()
						if err == nil && k != nil {
							ks, _ := k.AsString()
							c.Violation("C14|impostor-shard|child", "iterating a shard whose child block is a %s node listed entry %q of that node as a directory entry", t, ks)
							break
						}
					}
					for _, nm := range names {
						if v, err := n.LookupByString(nm[1:]); err == nil && v != nil {
							c.Violation("C14|impostor-shard|child-lookup", "lookup through a %s child block resolved %q", t, nm[1:])
						}
					}
				})
			}
			// ---- run every input through the three reification variants ----
			ls := st.LinkSystem(true)
			lsNR := st.LinkSystemCfg(true, false, true)
			variants := []struct {
				name string
				f    func(n ipld.Node) (ipld.Node, error)
			}{
				{"Reify", func(n ipld.Node) (ipld.Node, error) { return reify(ls, n) }},
				{"unixfs", func(n ipld.Node) (ipld.Node, error) {
					return ls.KnownReifiers["unixfs"](ipld.LinkContext{Ctx: bg}, n, ls)
				}},
				{"unixfs-preload", func(n ipld.Node) (ipld.Node, error) {
					return ls.KnownReifiers["unixfs-preload"](ipld.LinkContext{Ctx: bg}, n, ls)
				}},
				// the preloading view through a link system that also reifies every block it loads
				{"unixfs-preload+NodeReifier", func(n ipld.Node) (ipld.Node, error) {
					return lsNR.KnownReifiers["unixfs-preload"](ipld.LinkContext{Ctx: bg}, n, lsNR)
				}},
				// lazy reification needs no block beyond the node it is given: no link system, same answer
				{"Reify-without-linksystem", func(n ipld.Node) (ipld.Node, error) {
					return unixfsnode.Reify(ipld.LinkContext{Ctx: bg}, n, nil)
				}},
			}
			for _, in := range inputs {
				for _, v := range variants {
					var out ipld.Node
					var err error
					if !c.Guard(v.name+" of "+in.Class, func() { out, err = v.f(in.Node) }) {
						continue
					}
					c.Count("nodes", 1)
					c.Sig(in.Class+"|"+v.name, true)
					key := "C14|" + in.Expect + "|" + v.name
					switch in.Expect {
					case "same":
						if err != nil || out != in.Node {
							c.Violation("C14|non-dagpb-changed|"+v.name, "%s of a %s node returned (%T, %v) instead of the very same node", v.name, in.Class, out, err)
						}
						continue
					case "map-lazy-error-preload":
						if strings.HasPrefix(v.name, "unixfs-preload") {
							if err == nil {
								c.Violation("C14|invalid-accepted|"+v.name, "%s of %s (%s) returned a %T node and no error although it reifies the whole directory", v.name, in.Class, in.Why, out)
							}
						} else if err != nil || out == nil || out.Kind() != datamodel.Kind_Map {
							c.Violation("C14|wrong-class|"+v.name, "%s of %s returned (%T, %v), want a map for the valid root shard", v.name, in.Class, out, err)
						}
						continue
					case "error":
						if err == nil {
							c.Violation("C14|invalid-accepted|"+v.name, "%s of %s (%s) returned a %T node instead of an error", v.name, in.Class, in.Why, out)
						}
						continue
					}
					if err != nil {
						c.Violation(key+"|error", "%s of %s returned error %v", v.name, in.Class, err)
						continue
					}
					if out == nil {
						c.Violation(key+"|nil", "%s of %s returned (nil, nil)", v.name, in.Class)
						continue
					}
					switch in.Expect {
					case "bytes":
						if out.Kind() != datamodel.Kind_Bytes {
							c.Violation("C14|wrong-class|"+v.name, "%s of %s has kind %v, want bytes", v.name, in.Class, out.Kind())
						}
					case "map":
						if out.Kind() != datamodel.Kind_Map {
							c.Violation("C14|wrong-class|"+v.name, "%s of %s has kind %v, want map", v.name, in.Class, out.Kind())
						}
					case "linkmap", "linkmap-or-typed":
						if out.Kind() != datamodel.Kind_Map {
							if in.Expect == "linkmap" {
								c.Violation("C14|wrong-class|"+v.name, "%s of %s has kind %v, want a name-addressable link map", v.name, in.Class, out.Kind())
							}
							break
						}
						for i, name := range in.Names {
							var lv ipld.Node
							var lerr error
							c.Guard("LookupByString", func() { lv, lerr = out.LookupByString(name) })
							if lerr != nil {
								c.Violation("C14|linkmap-lookup|"+v.name, "%s of %s: LookupByString(%q) (link %d) failed: %v", v.name, in.Class, name, i, lerr)
								continue
							}
							if lk, e := lv.AsLink(); e != nil || lk == nil {
								c.Violation("C14|linkmap-lookup|"+v.name, "%s of %s: LookupByString(%q) is not a link (%v)", v.name, in.Class, name, e)
							}
							// the same name as a path segment and as a node key
							var sv, nv ipld.Node
							var serr, nerr error
							c.Guard("LookupBySegment", func() { sv, serr = out.LookupBySegment(datamodel.PathSegmentOfString(name)) })
							c.Guard("LookupByNode", func() { nv, nerr = out.LookupByNode(basicnode.NewString(name)) })
							if serr != nil || sv == nil || nerr != nil || nv == nil {
								c.Violation("C14|linkmap-lookup|"+v.name, "%s of %s: link %q is found by LookupByString but LookupBySegment gives (%v) and LookupByNode gives (%v)", v.name, in.Class, name, serr, nerr)
							}
						}
					}
					// substrate
					adl, ok := out.(interface{ Substrate() ipld.Node })
					if !ok {
						c.Violation("C14|no-substrate|"+v.name, "%s of %s: result %T exposes no Substrate()", v.name, in.Class, out)
						continue
					}
					var sub ipld.Node
					c.Guard("Substrate", func() { sub = adl.Substrate() })
					c.Count("substrate_checks", 1)
					if sub != in.Node {
						c.Violation("C14|substrate-not-original|"+v.name, "%s of %s: Substrate() is a %T, not the node that was reified", v.name, in.Class, sub)
					}
					var enc bytes.Buffer
					if sub == nil {
						continue
					}
					if e := dagpb.Encode(sub, &enc); e != nil {
						c.Violation("C14|substrate-unencodable|"+v.name, "%s of %s: dagpb.Encode(Substrate()) failed: %v", v.name, in.Class, e)
					} else if !bytes.Equal(enc.Bytes(), in.Canon) {
						c.Violation("C14|substrate-reencode-differs|"+v.name, "%s of %s: re-encoding the substrate gives %x, re-encoding the node that was reified gives %x", v.name, in.Class, enc.Bytes(), in.Canon)
					}
				}
			}
			c.Sample(map[string]any{"inputs": len(inputs), "variants": 3})
		})
	}
}
