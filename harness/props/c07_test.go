package props

import (
	"bytes"
	"fmt"
	"testing"

	"github.com/ipfs/go-cid"
	"github.com/ipfs/go-unixfsnode/data/builder"
	"github.com/ipld/go-ipld-prime"

	"verifharness/gen"
	"verifharness/mon"
	"verifharness/oracle"
	"verifharness/store"
)

// firstDagDifference walks both DAGs in parallel and describes the first node
// (depth-first) whose link lists differ.
func firstDagDifference(wa, wb *oracle.Walker, a, b cid.Cid, path string, depth int) string {
	if a.Equals(b) {
		return ""
	}
	na, ea := wa.Node(a)
	nb, eb := wb.Node(b)
	if ea != nil || eb != nil {
		return fmt.Sprintf("at %s: cannot load (%v / %v)", path, ea, eb)
	}
	if len(na.Links) != len(nb.Links) {
		return fmt.Sprintf("at %s (level %d): builder node has %d links, reference node has %d", path, depth, len(na.Links), len(nb.Links))
	}
	for i := range na.Links {
		if d := firstDagDifference(wa, wb, na.Links[i].Cid, nb.Links[i].Cid, fmt.Sprintf("%s/%d", path, i), depth+1); d != "" {
			return d
		}
		if na.Links[i].Tsize != nb.Links[i].Tsize {
			return fmt.Sprintf("at %s link %d: Tsize %d vs reference %d", path, i, na.Links[i].Tsize, nb.Links[i].Tsize)
		}
	}
	if !bytes.Equal(na.Data, nb.Data) {
		return fmt.Sprintf("at %s (level %d): same links, UnixFS Data differs: %x vs reference %x", path, depth, na.Data, nb.Data)
	}
	return fmt.Sprintf("at %s: blocks differ: %x vs %x", path, na.Raw, nb.Raw)
}

// shapeClasses reports which of the shape classes named by C07 a reference
// DAG exhibits.
func shapeClasses(w *oracle.Walker, root cid.Cid) (full, singleInterior, singleChain bool) {
	var rec func(c cid.Cid, parentSingle bool)
	allFull := true
	width := -1
	rec = func(c cid.Cid, parentSingle bool) {
		n, err := w.Node(c)
		if err != nil || len(n.Links) == 0 {
			return
		}
		if width < 0 {
			width = len(n.Links)
		} else if len(n.Links) != width {
			allFull = false
		}
		single := len(n.Links) == 1
		if single {
			singleInterior = true
			if parentSingle {
				singleChain = true
			}
		}
		for _, l := range n.Links {
			rec(l.Cid, single)
		}
	}
	rec(root, false)
	if rn, err := w.Node(root); err == nil && len(rn.Links) > 0 {
		full = allFull
	}
	return
}

func TestC07(t *testing.T) {
	r := mon.Start(t, "C07")
	defer r.Close()
	seen := map[string]bool{}
	for _, fc := range fileCases(r) {
		fc := fc
		id := fc.id("cmp")
		if seen[id] {
			continue
		}
		seen[id] = true
		r.Case(id, fc, func(c *mon.Case) {
			content := gen.Content(c.Rand(), fc.Kind, fc.Len)
			st := store.New()
			var root cid.Cid
			var size uint64
			var err error
			withWidth(fc.Width, func() {
				var l ipld.Link
				l, size, err = builder.BuildUnixFSFile(bytes.NewReader(content), fc.Chunker, st.LinkSystem(false))
				root = linkCid(l)
			})
			if err != nil {
				c.Violation("C07|build-error", "BuildUnixFSFile: %v", err)
				return
			}
			ref := store.New()
			rroot, rsize, err := oracle.RefBalanced(ref, content, fc.Chunker, fc.Width)
			if err != nil {
				c.Harness("reference importer refused input: %v", err)
				return
			}
			c.Count("compared", 1)
			wr := walkerFor(ref)
			depth, spine, _ := shapeOf(wr, rroot)
			full, si, sc := shapeClasses(wr, rroot)
			if full && depth >= 2 {
				c.Count("shapes_full_levels", 1)
			}
			if si {
				c.Count("shapes_single_child_interior", 1)
			}
			if sc {
				c.Count("shapes_single_child_chain", 1)
			}
			c.Max("max_depth", int64(depth))
			if !root.Equals(rroot) {
				class := "layout"
				if si {
					class = "single-child-interior"
				}
				d := firstDagDifference(walkerFor(st), wr, root, rroot, "root", 0)
				c.Violation("C07|root-differs|"+class, "width %d, %s, %d bytes (reference depth %d, right spine %v): builder %s, reference %s; %s", fc.Width, fc.Chunker, fc.Len, depth, spine, root, rroot, d)
			} else if size != rsize {
				c.Violation("C07|size-differs", "width %d, %s, %d bytes: same root %s but builder size %d, reference %d", fc.Width, fc.Chunker, fc.Len, root, size, rsize)
			}
			c.Sig(fmt.Sprintf("w%d|d%d|spine%v|%s", fc.Width, depth, spine, chunkerKind(fc.Chunker)), depth >= 2)
			c.Sample(map[string]any{"builder_root": root.String(), "reference_root": rroot.String(), "size": size, "ref_size": rsize, "depth": depth, "spine": spine})
		})
	}
}
