package props

import (
	"bytes"
	"context"
	"fmt"
	"io"
	"net"
	"os"
	"syscall"
	"testing"
	"testing/iotest"

	"github.com/ipfs/go-cid"
	"github.com/ipfs/go-unixfsnode/data/builder"
	"github.com/ipld/go-ipld-prime"

	"verifharness/gen"
	"verifharness/mon"
	"verifharness/oracle"
	"verifharness/store"
)

// firstDagDifference walks both DAGs in parallel and describes the first node
// (depth-first) whose link lists differ.
func firstDagDifference(wa, wb *oracle.Walker, a, b cid.Cid, path string, depth int) string {
	if a.Equals(b) {
		return ""
	}
	na, ea := wa.Node(a)
	nb, eb := wb.Node(b)
	if ea != nil || eb != nil {
		return fmt.Sprintf("at %s: cannot load (%v / %v)", path, ea, eb)
	}
	if len(na.Links) != len(nb.Links) {
		return fmt.Sprintf("at %s (level %d): builder node has %d links, reference node has %d", path, depth, len(na.Links), len(nb.Links))
	}
	for i := range na.Links {
		if d := firstDagDifference(wa, wb, na.Links[i].Cid, nb.Links[i].Cid, fmt.Sprintf("%s/%d", path, i), depth+1); d != "" {
			return d
		}
		if na.Links[i].Tsize != nb.Links[i].Tsize {
			return fmt.Sprintf("at %s link %d: Tsize %d vs reference %d", path, i, na.Links[i].Tsize, nb.Links[i].Tsize)
		}
	}
	if !bytes.Equal(na.Data, nb.Data) {
		return fmt.Sprintf("at %s (level %d): same links, UnixFS Data differs: %x vs reference %x", path, depth, na.Data, nb.Data)
	}
	return fmt.Sprintf("at %s: blocks differ: %x vs %x", path, na.Raw, nb.Raw)
}

// shapeClasses reports which of the shape classes named by C07 a reference
// DAG exhibits.
func shapeClasses(w *oracle.Walker, root cid.Cid) (full, singleInterior, singleChain bool) {
	var rec func(c cid.Cid, parentSingle bool)
	allFull := true
	width := -1
	rec = func(c cid.Cid, parentSingle bool) {
		n, err := w.Node(c)
		if err != nil || len(n.Links) == 0 {
			return
		}
		if width < 0 {
			width = len(n.Links)
		} else if len(n.Links) != width {
			allFull = false
		}
		single := len(n.Links) == 1
		if single {
			singleInterior = true
			if parentSingle {
				singleChain = true
			}
		}
		for _, l := range n.Links {
			rec(l.Cid, single)
		}
	}
	rec(root, false)
	if rn, err := w.Node(root); err == nil && len(rn.Links) > 0 {
		full = allFull
	}
	return
}

// zeroReader yields n zero bytes without holding them in memory.
type zeroReader struct{ left int64 }

func (z *zeroReader) Read(p []byte) (int, error) {
	if z.left <= 0 {
		return 0, io.EOF
	}
	n := int64(len(p))
	if n > z.left {
		n = z.left
	}
	for i := int64(0); i < n; i++ {
		p[i] = 0
	}
	z.left -= n
	return int(n), nil
}

// flakyReader delivers data, except that the read reaching offset failAt fails once with err (after
// delivering the bytes before failAt); asked again it carries on.
type flakyReader struct {
	data   []byte
	failAt int
	err    error
	pos    int
	failed bool
}

func (f *flakyReader) Read(p []byte) (int, error) {
	if !f.failed && f.pos+len(p) > f.failAt {
		n := copy(p[:f.failAt-f.pos], f.data[f.pos:f.failAt])
		f.pos += n
		if n == 0 {
			f.failed = true
			return 0, f.err
		}
		return n, nil
	}
	if f.pos >= len(f.data) {
		return 0, io.EOF
	}
	n := copy(p, f.data[f.pos:])
	f.pos += n
	return n, nil
}

// peekedSource is a stream whose first bytes were read ahead into a buffer: Read delivers the buffer and
// then the rest; Len, Size, ReadByte and ReadAt know about the buffered head only.
type peekedSource struct {
	head []byte
	pos  int
	rest io.Reader
}

func (p *peekedSource) Read(b []byte) (int, error) {
	if p.pos < len(p.head) {
		n := copy(b, p.head[p.pos:])
		p.pos += n
		return n, nil
	}
	return p.rest.Read(b)
}
func (p *peekedSource) Len() int    { return len(p.head) - p.pos }
func (p *peekedSource) Size() int64 { return int64(len(p.head)) }
func (p *peekedSource) ReadAt(b []byte, off int64) (int, error) {
	if off >= int64(len(p.head)) {
		return 0, io.EOF
	}
	n := copy(b, p.head[off:])
	if n < len(b) {
		return n, io.EOF
	}
	return n, nil
}

type onlyReader struct{ r io.Reader }

func (o onlyReader) Read(b []byte) (int, error) { return o.r.Read(b) }

type tempErr struct{}

func (tempErr) Error() string   { return "temporarily unavailable" }
func (tempErr) Temporary() bool { return true }
func (tempErr) Timeout() bool   { return true }

func TestC07(t *testing.T) {
	r := mon.Start(t, "C07")
	defer r.Close()
	if !r.Quick() {
		// sizes at and beyond 2^32 bytes: streamed zeros (identical leaves keep the stores tiny)
		for _, hc := range []struct {
			n  int64
			w  int
			ch string
		}{{1<<32 + 1, 2, "size-1048576"}, {1 << 32, 3, "size-1048576"}, {1<<31 + 7, 2, "size-524288"}} {
			hc := hc
			r.Case(fmt.Sprintf("huge/w%d/%s/len%d", hc.w, hc.ch, hc.n), map[string]any{"len": hc.n, "width": hc.w, "chunker": hc.ch, "content": "zero stream"}, func(c *mon.Case) {
				st := store.New()
				var l ipld.Link
				var size uint64
				var err error
				withWidth(hc.w, func() { l, size, err = builder.BuildUnixFSFile(&zeroReader{left: hc.n}, hc.ch, st.LinkSystem(false)) })
				if err != nil {
					c.Violation("C07|build-error", "BuildUnixFSFile of %d bytes: %v", hc.n, err)
					return
				}
				ref := store.New()
				rroot, rsize, err := oracle.RefImport(ref, &zeroReader{left: hc.n}, hc.ch, hc.w, oracle.ImportMode{Layout: "balanced", RawLeaves: true, CidV1: true})
				if err != nil {
					c.Harness("reference importer: %v", err)
					return
				}
				c.Count("compared", 1)
				c.Count("compared_ge_2e31_bytes", 1)
				if !linkCid(l).Equals(rroot) || size != rsize {
					c.Violation("C07|root-differs|huge", "%d bytes, width %d, %s: builder (%s, %d), reference (%s, %d); %s", hc.n, hc.w, hc.ch, l, size, rroot, rsize, firstDagDifference(walkerFor(st), walkerFor(ref), linkCid(l), rroot, "root", 0))
				}
				c.Sig(fmt.Sprintf("huge|w%d|%d", hc.w, hc.n>>30), true)
			})
		}
	}
	// both implementations left at their own defaults (nothing assigns the link width here): the
	// same file has to come out under the same CID
	for _, n := range []int{1, 174, 175, 349, 174*174 + 1} {
		n := n
		r.Case(fmt.Sprintf("defaults/chunks%d", n), map[string]any{"chunks": n, "chunker": "size-1", "width": "library default vs reference default"}, func(c *mon.Case) {
			content := gen.Content(c.Rand(), "rand", n)
			st, ref := store.New(), store.New()
			l, size, err := builder.BuildUnixFSFile(bytes.NewReader(content), "size-1", st.LinkSystem(false))
			if err != nil {
				c.Violation("C07|build-error", "BuildUnixFSFile at default width: %v", err)
				return
			}
			rroot, rsize, err := oracle.RefImport(ref, bytes.NewReader(content), "size-1", oracle.RefDefaultWidth, oracle.ImportMode{Layout: "balanced", RawLeaves: true, CidV1: true})
			if err != nil {
				c.Harness("reference importer: %v", err)
				return
			}
			c.Count("compared", 1)
			c.Count("compared_at_default_widths", 1)
			if !linkCid(l).Equals(rroot) || size != rsize {
				c.Violation("C07|root-differs|defaults", "%d one-byte chunks with both implementations at their default link width (library %d, reference %d): builder (%s, %d), reference (%s, %d); %s", n, builder.DefaultLinksPerBlock, oracle.RefDefaultWidth, l, size, rroot, rsize, firstDagDifference(walkerFor(st), walkerFor(ref), linkCid(l), rroot, "root", 0))
			}
			c.Sig(fmt.Sprintf("defaults|%s", sizeClass(n)), n >= 2)
		})
	}
	// link widths far beyond the usual: one interior node of tens of thousands of links encodes to more
	// than a mebibyte. The reference importer limits the payload of a leaf, never the encoded size of a
	// node, so such a file has a CID there - and must have the same one here
	for _, wn := range [][2]int{{25000, 24000}, {30000, 30001}} {
		w, n := wn[0], wn[1]
		r.Case(fmt.Sprintf("very-wide/w%d/chunks%d", w, n), map[string]any{"chunks": n, "chunker": "size-1", "width": w}, func(c *mon.Case) {
			content := gen.Content(c.Rand(), "rand", n)
			st, ref := store.New(), store.New()
			var l ipld.Link
			var size uint64
			var err error
			withWidth(w, func() { l, size, err = builder.BuildUnixFSFile(bytes.NewReader(content), "size-1", st.LinkSystem(false)) })
			rroot, rsize, rerr := oracle.RefImport(ref, bytes.NewReader(content), "size-1", w, oracle.ImportMode{Layout: "balanced", RawLeaves: true, CidV1: true})
			if rerr != nil {
				c.Harness("reference importer: %v", rerr)
				return
			}
			c.Count("compared", 1)
			c.Count("compared_with_nodes_over_1MiB", 1)
			if err != nil {
				c.Violation("C07|build-error", "BuildUnixFSFile of %d one-byte chunks at link width %d: %v (the reference importer returns %s, %d)", n, w, err, rroot, rsize)
				return
			}
			if blk, ok := st.Get(linkCid(l)); ok {
				c.Max("max_encoded_node_bytes", int64(len(blk)))
			}
			if !linkCid(l).Equals(rroot) || size != rsize {
				c.Violation("C07|root-differs|very-wide", "%d one-byte chunks at link width %d: builder (%s, %d), reference (%s, %d)", n, w, l, size, rroot, rsize)
			}
			c.Sig(fmt.Sprintf("very-wide|%d", w), true)
		})
	}
	// a source that fails after delivering part of the content: the reference importer reports the
	// error, so must the builder (whatever the kind of error, including ones that wrap io.EOF)
	for i, kind := range []error{store.ErrInjected, fmt.Errorf("source truncated: %w", io.EOF), io.ErrUnexpectedEOF, fmt.Errorf("wrapped: %w", io.ErrUnexpectedEOF), io.ErrClosedPipe} {
		for _, at := range []int{0, 1, 7, 16, 100, 1357} {
			i, kind, at := i, kind, at
			r.Case(fmt.Sprintf("source-fails/kind%d/at%d", i, at), map[string]any{"error": kind.Error(), "after_bytes": at}, func(c *mon.Case) {
				content := gen.Content(c.Rand(), "rand", at)
				mk := func() io.Reader { return io.MultiReader(bytes.NewReader(content), iotest.ErrReader(kind)) }
				var berr, rerr error
				var l ipld.Link
				var bsize, rsize uint64
				var rroot cid.Cid
				withWidth(3, func() { l, bsize, berr = builder.BuildUnixFSFile(mk(), "size-16", store.New().LinkSystem(false)) })
				rroot, rsize, rerr = oracle.RefImport(store.New(), mk(), "size-16", 3, oracle.ImportMode{Layout: "balanced", RawLeaves: true, CidV1: true})
				c.Count("source_failures_compared", 1)
				if (berr == nil) != (rerr == nil) {
					c.Violation("C07|source-error-disagrees", "source failing with %q after %d bytes: builder returned (%v, err %v), reference importer err %v", kind, at, l, berr, rerr)
				} else if berr == nil {
					// an ending both accept (io.ErrUnexpectedEOF is how a short last chunk looks to the
					// chunkers): then the file is the same file
					c.Count("accepted_endings_compared", 1)
					if !linkCid(l).Equals(rroot) || bsize != rsize {
						c.Violation("C07|root-differs|after-source-error", "source ending with %q after %d bytes is accepted by both: builder (%v, %d), reference (%v, %d)", kind, at, l, bsize, rroot, rsize)
					}
				}
				c.Sig(fmt.Sprintf("source-fails|kind%d", i), true)
			})
		}
	}
	// sources that offer more than Read - a Len() that reports only what is buffered so far (a stream
	// whose head was peeked at), a Size(), a Stat-like method, ReadByte, ReadAt: the file is the bytes Read
	// delivers, under the chunker that was asked for, whatever else the source can do
	for _, ch := range []string{"", "default", "size-16", "size-262144"} {
		for _, n := range []int{1000, 5000, 300000} {
			for peek := 0; peek < 3; peek++ {
				ch, n, peek := ch, n, peek
				r.Case(fmt.Sprintf("source-extras/ch%s/n%d/peek%d", ch, n, peek), map[string]any{"chunker": ch, "len": n, "source": "Read plus Len/Size/ReadByte/ReadAt reporting the peeked head only"}, func(c *mon.Case) {
					content := gen.Content(c.Rand(), "rand", n)
					head := []int{0, 100, 4096}[peek]
					if head > n {
						head = n
					}
					var l ipld.Link
					var bsize uint64
					var berr error
					withWidth(174, func() {
						l, bsize, berr = builder.BuildUnixFSFile(&peekedSource{head: content[:head], rest: bytes.NewReader(content[head:])}, ch, store.New().LinkSystem(false))
					})
					rch := ch
					if rch == "" {
						rch = "default"
					}
					rroot, rsize, rerr := oracle.RefImport(store.New(), onlyReader{bytes.NewReader(content)}, rch, 174, oracle.ImportMode{Layout: "balanced", RawLeaves: true, CidV1: true})
					if rerr != nil {
						c.Harness("reference importer: %v", rerr)
						return
					}
					c.Count("compared", 1)
					c.Count("sources_with_extra_methods_compared", 1)
					if berr != nil {
						c.Violation("C07|build-error", "source with extra methods, chunker %q, %d bytes: %v", ch, n, berr)
					} else if !linkCid(l).Equals(rroot) || bsize != rsize {
						c.Violation("C07|root-differs|source-extras", "%d bytes, chunker %q, from a source whose Len()/Size() report its %d peeked bytes: builder (%s, %d), reference from a plain reader (%s, %d)", n, ch, head, l, bsize, rroot, rsize)
					}
					c.Sig(fmt.Sprintf("source-extras|%s|%d", ch, peek), true)
				})
			}
		}
	}
	// a source that fails ONCE and would carry on if asked again (a read deadline that expired, an
	// interrupted system call, a "temporary" network error): the reference importer gives up at the
	// first error whatever its kind - its chunkers have dropped the bytes read so far by then - and so
	// must the builder; a result for content with a hole in it is no result
	for i, kind := range []error{os.ErrDeadlineExceeded, context.DeadlineExceeded, syscall.EINTR, syscall.EAGAIN, &net.OpError{Op: "read", Net: "tcp", Err: os.ErrDeadlineExceeded}, tempErr{}, store.ErrInjected} {
		for _, at := range []int{0, 8, 16, 40, 152, 700} {
			for _, rest := range []int{0, 5, 16, 300} {
				i, kind, at, rest := i, kind, at, rest
				r.Case(fmt.Sprintf("source-fails-once/kind%d/at%d/rest%d", i, at, rest), map[string]any{"error": kind.Error(), "after_bytes": at, "bytes_after_the_failure": rest}, func(c *mon.Case) {
					content := gen.Content(c.Rand(), "rand", at+rest)
					var berr, rerr error
					var l ipld.Link
					var bsize, rsize uint64
					var rroot cid.Cid
					withWidth(3, func() {
						l, bsize, berr = builder.BuildUnixFSFile(&flakyReader{data: content, failAt: at, err: kind}, "size-16", store.New().LinkSystem(false))
					})
					rroot, rsize, rerr = oracle.RefImport(store.New(), &flakyReader{data: content, failAt: at, err: kind}, "size-16", 3, oracle.ImportMode{Layout: "balanced", RawLeaves: true, CidV1: true})
					c.Count("source_failures_compared", 1)
					c.Count("transient_source_failures_compared", 1)
					if (berr == nil) != (rerr == nil) {
						c.Violation("C07|source-error-disagrees", "source failing once with %q (%T) after %d of %d bytes: builder returned (%v, %d, err %v), reference importer (%v, %d, err %v)", kind, kind, at, at+rest, l, bsize, berr, rroot, rsize, rerr)
					} else if berr == nil && (!linkCid(l).Equals(rroot) || bsize != rsize) {
						c.Violation("C07|root-differs|after-source-error", "source failing once with %q after %d of %d bytes: builder (%v, %d), reference (%v, %d)", kind, at, at+rest, l, bsize, rroot, rsize)
					}
					c.Sig(fmt.Sprintf("source-fails-once|kind%d|rest%v", i, rest > 0), true)
				})
			}
		}
	}
	seen := map[string]bool{}
	for ci, fc := range fileCases(r) {
		ci, fc := ci, fc
		id := fc.id("cmp")
		if seen[id] {
			continue
		}
		seen[id] = true
		r.Case(id, fc, func(c *mon.Case) {
			content := gen.Content(c.Rand(), fc.Kind, fc.Len)
			st := store.New()
			var root cid.Cid
			var size uint64
			var err error
			// every third case hands the builder a seekable reader that was already advanced (as after
			// reading a header): the content is what the reader yields from its current position
			var src io.Reader = bytes.NewReader(content)
			if ci%3 == 1 {
				junk := gen.Content(c.Rand(), "rand", 1+c.Rand().Intn(300))
				br := bytes.NewReader(append(append([]byte(nil), junk...), content...))
				br.Seek(int64(len(junk)), io.SeekStart)
				src = br
				c.Count("advanced_seekable_readers", 1)
			}
			bls := st.LinkSystem(false)
			if ci%5 == 2 {
				bls = store.ChunkedEncoders(bls, 1+ci%90) // CIDs must not depend on how the encoder writes
			}
			withWidth(fc.Width, func() {
				var l ipld.Link
				l, size, err = builder.BuildUnixFSFile(src, fc.Chunker, bls)
				root = linkCid(l)
			})
			if err != nil {
				c.Violation("C07|build-error", "BuildUnixFSFile: %v", err)
				return
			}
			ref := store.New()
			rroot, rsize, err := oracle.RefBalanced(ref, content, fc.Chunker, fc.Width)
			if err != nil {
				c.Harness("reference importer refused input: %v", err)
				return
			}
			c.Count("compared", 1)
			wr := walkerFor(ref)
			depth, spine, _ := shapeOf(wr, rroot)
			full, si, sc := shapeClasses(wr, rroot)
			if full && depth >= 2 {
				c.Count("shapes_full_levels", 1)
			}
			if si {
				c.Count("shapes_single_child_interior", 1)
			}
			if sc {
				c.Count("shapes_single_child_chain", 1)
			}
			c.Max("max_depth", int64(depth))
			if !root.Equals(rroot) {
				class := "layout"
				if si {
					class = "single-child-interior"
				}
				d := firstDagDifference(walkerFor(st), wr, root, rroot, "root", 0)
				c.Violation("C07|root-differs|"+class, "width %d, %s, %d bytes (reference depth %d, right spine %v): builder %s, reference %s; %s", fc.Width, fc.Chunker, fc.Len, depth, spine, root, rroot, d)
			} else if size != rsize {
				c.Violation("C07|size-differs", "width %d, %s, %d bytes: same root %s but builder size %d, reference %d", fc.Width, fc.Chunker, fc.Len, root, size, rsize)
			}
			c.Sig(fmt.Sprintf("w%d|d%d|spine%v|%s", fc.Width, depth, spine, chunkerKind(fc.Chunker)), depth >= 2)
			c.Sample(map[string]any{"builder_root": root.String(), "reference_root": rroot.String(), "size": size, "ref_size": rsize, "depth": depth, "spine": spine})
		})
	}
}
