package props

import (
	"bytes"
	"fmt"
	"io"
	"math/rand"
	"sort"
	"strings"
	"sync"
	"testing"
	"testing/iotest"

	"github.com/ipfs/go-cid"
	"github.com/ipfs/go-unixfsnode"
	"github.com/ipfs/go-unixfsnode/testutil"
	"github.com/ipld/go-ipld-prime"

	"verifharness/mon"
	"verifharness/oracle"
	"verifharness/store"
)

// stickyReader passes r through, except that length bytes starting at offset
// from are all b.
type stickyReader struct {
	r            io.Reader
	from, length int
	b            byte
	pos          int
}

func (s *stickyReader) Read(p []byte) (int, error) {
	n, err := s.r.Read(p)
	for i := 0; i < n; i++ {
		if s.pos >= s.from && s.pos < s.from+s.length {
			p[i] = s.b
		}
		s.pos++
	}
	return n, err
}

// failingReader delivers left bytes of r and then fails with err.
type failingReader struct {
	r    io.Reader
	left int
	err  error
}

func (f *failingReader) Read(p []byte) (int, error) {
	if f.left <= 0 {
		return 0, f.err
	}
	if len(p) > f.left {
		p = p[:f.left]
	}
	n, err := f.r.Read(p)
	f.left -= n
	return n, err
}

func lastSeg(p string) string {
	if i := strings.LastIndex(p, "/"); i >= 0 {
		return p[i+1:]
	}
	return p
}

type c19Stats struct {
	entries, maxDepth, shardedLevels int
}

func countEntries(de testutil.DirEntry, stt *c19Stats) {
	stt.entries++
	for _, ch := range de.Children {
		countEntries(ch, stt)
	}
}

// repathEntry returns a deep copy of de with the path prefix from replaced by to, at every level.
func repathEntry(de testutil.DirEntry, from, to string) testutil.DirEntry {
	out := de
	out.Path = to + strings.TrimPrefix(de.Path, from)
	out.Children = nil
	for _, ch := range de.Children {
		out.Children = append(out.Children, repathEntry(ch, from, to))
	}
	return out
}

// compareEntry checks a returned DirEntry against an independent walk of the
// stored DAG from its Root.
func compareEntry(c *mon.Case, gname string, w *oracle.Walker, de testutil.DirEntry, pathRule bool, depth int, stt *c19Stats) {
	stt.entries++
	if depth > stt.maxDepth {
		stt.maxDepth = depth
	}
	if stt.entries > 20000 {
		return
	}
	n, err := w.Node(de.Root)
	if err != nil {
		c.Violation("C19|"+gname+"|root-not-stored", "entry %q: root %s is not in the store: %v", de.Path, de.Root, err)
		return
	}
	isDir := n.IsPB && n.FS != nil && (n.FS.GetType() == 1 || n.FS.GetType() == 5)
	if !isDir {
		_, content, err := w.FileSpans(de.Root)
		if err != nil {
			c.Violation("C19|"+gname+"|file-incomplete", "entry %q: stored file DAG is incomplete: %v", de.Path, err)
			return
		}
		if !bytes.Equal(content, de.Content) {
			c.Violation("C19|"+gname+"|content-differs", "entry %q: DirEntry has %d content bytes (sha %s), the stored DAG reads %d bytes (sha %s)", de.Path, len(de.Content), sum(de.Content), len(content), sum(content))
		}
		if len(de.Children) != 0 {
			c.Violation("C19|"+gname+"|file-with-children", "entry %q is a file in the store but the DirEntry lists %d children", de.Path, len(de.Children))
		}
		return
	}
	stored := map[string]cid.Cid{}
	if n.FS.GetType() == 5 {
		stt.shardedLevels++
		ents, _, _, err := w.HamtWalk(de.Root)
		if err != nil {
			c.Violation("C19|"+gname+"|dir-incomplete", "entry %q: stored sharded directory cannot be walked: %v", de.Path, err)
			return
		}
		for _, e := range ents {
			if _, dup := stored[e.Name]; dup {
				c.Violation("C19|"+gname+"|stored-duplicate-name", "entry %q: stored directory holds name %q twice", de.Path, e.Name)
			}
			stored[e.Name] = e.Cid
		}
	} else {
		for _, l := range n.Links {
			if _, dup := stored[l.Name]; dup {
				c.Violation("C19|"+gname+"|stored-duplicate-name", "entry %q: stored directory holds name %q twice", de.Path, l.Name)
			}
			stored[l.Name] = l.Cid
		}
	}
	if len(de.Content) != 0 {
		c.Violation("C19|"+gname+"|dir-with-content", "entry %q is a directory in the store but the DirEntry carries %d content bytes", de.Path, len(de.Content))
	}
	seen := map[string]bool{}
	for _, ch := range de.Children {
		name := lastSeg(ch.Path)
		if name == "" {
			c.Violation("C19|"+gname+"|empty-name", "directory %q: child with path %q has an empty name", de.Path, ch.Path)
			continue
		}
		if seen[name] {
			c.Violation("C19|"+gname+"|duplicate-sibling", "directory %q: sibling name %q appears twice in the DirEntry", de.Path, name)
			continue
		}
		seen[name] = true
		if pathRule && ch.Path != de.Path+"/"+name {
			c.Violation("C19|"+gname+"|path-rule", "directory %q: child path %q is not parent path + \"/\" + %q", de.Path, ch.Path, name)
		}
		sc, ok := stored[name]
		if !ok {
			c.Violation("C19|"+gname+"|child-not-stored", "directory %q: DirEntry child %q is not an entry of the stored directory (stored names: %s)", de.Path, name, strings.Join(firstN(sortedKeys(stored), 8), ","))
			continue
		}
		if !sc.Equals(ch.Root) {
			c.Violation("C19|"+gname+"|child-root-differs", "directory %q: child %q has Root %s in the DirEntry, the stored directory links %s", de.Path, name, ch.Root, sc)
			continue
		}
		compareEntry(c, gname, w, ch, pathRule, depth+1, stt)
	}
	if len(seen) != len(stored) {
		for name := range stored {
			if !seen[name] {
				c.Violation("C19|"+gname+"|stored-child-missing", "directory %q: stored entry %q is missing from the DirEntry (%d children vs %d stored)", de.Path, name, len(de.Children), len(stored))
				break
			}
		}
	}
}

func firstN(s []string, n int) []string {
	if len(s) > n {
		return s[:n]
	}
	return s
}

func TestC19(t *testing.T) {
	r := mon.Start(t, "C19")
	defer r.Close()
	sizes := []int{1 << 10, 4 << 10, 20000, 64 << 10, 256 << 10}
	type g struct {
		Name string
		Size int
		Var  int
	}
	var gens []g
	nseeds := r.Pick(6, 150)
	for s := 0; s < nseeds; s++ {
		for _, sz := range sizes {
			if r.Quick() && sz > 64<<10 && s > 0 {
				continue
			}
			gens = append(gens, g{"UnixFSFile", sz, s}, g{"UnixFSFile-shortsource", sz, s}, g{"UnixFSFile-failingsource", sz, s}, g{"UnixFSFile-dataeofsource", sz, s}, g{"UnixFSDirectory", sz, s}, g{"UnixFSDirectory-dirname", sz, s}, g{"UnixFSDirectory-sharded", sz, s}, g{"UnixFSDirectory-custom", sz, s},
				g{"GenerateDirectory", sz, s}, g{"GenerateDirectory-sharded", sz, s}, g{"GenerateDirectoryFrom", sz, s}, g{"BuildDirectory", sz, s}, g{"WrapContent-exclusive", sz, s}, g{"WrapContent", sz, s})
		}
	}
	for s := 0; s < nseeds; s++ {
		gens = append(gens, g{"UnixFSDirectory-stickysource", 4 << 10, s}, g{"UnixFSDirectory-stickysource", 20000, s}, g{"UnixFSDirectory-custom-ext-sticky", 20000, s})
	}
	// fixtures generated by several goroutines at once (each its own store and random source): every
	// description has to match its own stored DAG
	for round := 0; round < r.Pick(3, 20); round++ {
		round := round
		r.Case(fmt.Sprintf("concurrent-generation/%d", round), map[string]any{"goroutines": 8, "round": round}, func(c *mon.Case) {
			const G = 8
			stores := make([]*store.Store, G)
			des := make([]testutil.DirEntry, G)
			errs := make([]error, G)
			var wg sync.WaitGroup
			start := make(chan struct{})
			for g := 0; g < G; g++ {
				stores[g] = store.New()
				stores[g].IgnoreCtx = true
				wg.Add(1)
				go func(g int) {
					defer wg.Done()
					defer func() {
						if p := recover(); p != nil {
							errs[g] = fmt.Errorf("panic: %v", p)
						}
					}()
					rnd := rand.New(rand.NewSource(int64(c.Seed) + int64(g)*7919))
					ls := stores[g].LinkSystem(false)
					<-start
					for rep := 0; rep < 6 && errs[g] == nil; rep++ {
						if g%2 == 0 {
							des[g], errs[g] = testutil.UnixFSFile(*ls, 20000+g*1000, testutil.WithRandReader(rnd), testutil.WithChunker("size-1000"))
						} else {
							des[g], errs[g] = testutil.UnixFSDirectory(*ls, 12000, testutil.WithRandReader(rnd))
						}
					}
				}(g)
			}
			close(start)
			wg.Wait()
			c.Count("generations", G)
			c.Count("concurrent_generations", G)
			for g := 0; g < G; g++ {
				if errs[g] != nil {
					c.Violation("C19|concurrent|generator-error", "one of %d concurrent generations failed: %v", G, errs[g])
					continue
				}
				stt := &c19Stats{}
				compareEntry(c, "concurrent", walkerFor(stores[g]), des[g], g%2 == 1, 0, stt)
				c.Count("entries_compared", int64(stt.entries))
			}
			c.Sig("concurrent-generation", true)
		})
	}
	for _, gg := range gens {
		gg := gg
		r.Case(fmt.Sprintf("%s/size%d/%d", gg.Name, gg.Size, gg.Var), gg, func(c *mon.Case) {
			rnd := rand.New(rand.NewSource(int64(c.Seed)))
			st := store.New()
			st.IgnoreCtx = true // the testutil API takes no context
			ls := st.LinkSystem(false)
			ls.NodeReifier = unixfsnode.Reify
			tt := c.Run().T
			var de testutil.DirEntry
			var err error
			pathRule := false
			sharded := false
			sourceFailed := false
			ok := c.Guard(gg.Name, func() {
				switch gg.Name {
				case "UnixFSFile":
					chunker := []string{"size-256144", "size-1000", "size-64"}[gg.Var%3]
					de, err = testutil.UnixFSFile(*ls, gg.Size, testutil.WithRandReader(rnd), testutil.WithChunker(chunker))
				case "UnixFSFile-failingsource":
					// a source that fails before the target size is reached; an error from the generator is
					// fine, a description of bytes that were not stored is not
					have := []int{0, 1, gg.Size / 3, gg.Size - 1, 64, 100}[gg.Var%6]
					ferr := []error{fmt.Errorf("random source closed: %w", io.EOF), io.ErrUnexpectedEOF, store.ErrInjected}[gg.Var%3]
					de, err = testutil.UnixFSFile(*ls, gg.Size, testutil.WithRandReader(&failingReader{r: rnd, left: have, err: ferr}), testutil.WithChunker([]string{"size-1000", "size-64"}[gg.Var%2]))
					if err != nil {
						c.Count("generator_errors_on_failing_sources", 1)
						err = nil
						sourceFailed = true
					}
				case "UnixFSFile-shortsource":
					// a random source that runs dry before the target size is reached (also at once)
					have := []int{0, 1, gg.Size / 3, gg.Size - 1}[gg.Var%4]
					de, err = testutil.UnixFSFile(*ls, gg.Size, testutil.WithRandReader(io.LimitReader(rnd, int64(have))), testutil.WithChunker([]string{"size-1000", "size-64"}[gg.Var%2]))
					if err == nil && len(de.Content) > have {
						c.Violation("C19|UnixFSFile-shortsource|content-longer-than-source", "UnixFSFile(size %d) on a source of %d bytes describes %d content bytes", gg.Size, have, len(de.Content))
					}
				case "UnixFSFile-dataeofsource":
					// a finite source that hands out its last bytes together with io.EOF in one call
					have := []int{1, gg.Size / 3, gg.Size - 1, gg.Size, 40}[gg.Var%5]
					de, err = testutil.UnixFSFile(*ls, gg.Size, testutil.WithRandReader(iotest.DataErrReader(io.LimitReader(rnd, int64(have)))), testutil.WithChunker([]string{"size-1000", "size-64", "size-262144"}[gg.Var%3]))
					c.Count("sources_ending_with_data_and_eof", 1)
				case "UnixFSDirectory-stickysource":
					// a random source that, for a stretch, keeps delivering one and the same byte (and so
					// proposes one and the same name over and over) before it moves on
					pathRule = true
					de, err = testutil.UnixFSDirectory(*ls, gg.Size, testutil.WithRandReader(&stickyReader{r: rnd, from: 40 + 97*gg.Var, length: 6000, b: byte(2 + gg.Var%4)}))
				case "UnixFSDirectory":
					pathRule = true
					de, err = testutil.UnixFSDirectory(*ls, gg.Size, testutil.WithRandReader(rnd))
				case "UnixFSDirectory-dirname":
					pathRule = true
					dn := []string{"/top/dir", "/release-1.2", "/example.org/pub", "/v1.0", "/a.b/c.d/e"}[(gg.Var+gg.Size)%5]
					de, err = testutil.UnixFSDirectory(*ls, gg.Size, testutil.WithRandReader(rnd), testutil.WithDirname(dn), testutil.WithChunker("size-500"))
				case "UnixFSDirectory-sharded":
					pathRule = true
					sharded = true
					bw := 2 + (gg.Var+gg.Size)%8
					de, err = testutil.UnixFSDirectory(*ls, gg.Size, testutil.WithRandReader(rnd), testutil.WithShardBitwidth(bw))
				case "UnixFSDirectory-custom":
					pathRule = true
					n := 0
					var reused testutil.DirEntry
					de, err = testutil.UnixFSDirectory(*ls, gg.Size, testutil.WithRandReader(rnd), testutil.WithChildGenerator(func(name string) (*testutil.DirEntry, error) {
						n++
						if n > 5+gg.Var {
							return nil, nil
						}
						if n%3 == 0 {
							dn := name
							if gg.Var%2 == 1 {
								dn = name + ".d" // the generator names its own children
							}
							sub, err := testutil.UnixFSDirectory(*ls, 2000, testutil.WithRandReader(rnd), testutil.WithDirname(dn))
							if err != nil {
								return nil, err
							}
							return &sub, nil
						}
						f, err := testutil.UnixFSFile(*ls, 100+n*37, testutil.WithRandReader(rnd))
						if err != nil {
							return nil, err
						}
						f.Path = name
						if gg.Var%4 >= 2 {
							// the generator keeps one entry variable and hands out its address every time
							reused = f
							return &reused, nil
						}
						return &f, nil
					}))
				case "UnixFSDirectory-custom-ext-sticky":
					// a child generator that gives its files an extension, fed by a source that proposes
					// one name over and over for a while
					pathRule = true
					n := 0
					src := &stickyReader{r: rnd, from: 30 + 53*gg.Var, length: 5000, b: byte(2 + gg.Var%4)}
					de, err = testutil.UnixFSDirectory(*ls, gg.Size, testutil.WithRandReader(src), testutil.WithChildGenerator(func(name string) (*testutil.DirEntry, error) {
						n++
						if n > 14 {
							return nil, nil
						}
						f, err := testutil.UnixFSFile(*ls, 60+n*11, testutil.WithRandReader(rnd))
						if err != nil {
							return nil, err
						}
						// one extension, as the generator's own duplicate test allows for (it compares names
						// with the text after the last dot removed; "x.tar.gz" would defeat it, which is the
						// child generator's doing, not the library's)
						f.Path = name + []string{".txt", ".md"}[gg.Var%2]
						return &f, nil
					}))
				case "GenerateDirectory", "GenerateDirectory-sharded":
					pathRule = true
					sharded = gg.Name != "GenerateDirectory"
					okRun := tt.Run(c.ID, func(t *testing.T) { de = testutil.GenerateDirectory(t, ls, rnd, gg.Size, sharded) })
					if !okRun {
						err = fmt.Errorf("GenerateDirectory failed its own requirements")
					}
				case "GenerateDirectoryFrom":
					pathRule = true
					dir := []string{"sub", "sub/deeper", "/sub/", "./sub", "/a/b/c", "with space/x", "/", "/v1.0", "/example.org/pub"}[(gg.Var+gg.Size)%9]
					okRun := tt.Run(c.ID, func(t *testing.T) { de = testutil.GenerateDirectoryFrom(t, ls, rnd, gg.Size, dir, gg.Var%2 == 1) })
					if !okRun {
						err = fmt.Errorf("GenerateDirectoryFrom failed its own requirements")
					} else if de.Path != dir {
						c.Violation("C19|GenerateDirectoryFrom|root-path", "GenerateDirectoryFrom(dir=%q) returned an entry with Path %q", dir, de.Path)
					}
				case "BuildDirectory":
					sharded = gg.Var%2 == 1
					okRun := tt.Run(c.ID, func(t *testing.T) {
						var children []testutil.DirEntry
						for i := 0; i < 3+gg.Var%20; i++ {
							f := testutil.GenerateFile(t, ls, rnd, 50+i*13)
							f.Path = fmt.Sprintf("/entry-%d", (i*7)%23)
							dup := false
							for _, ch := range children {
								if ch.Path == f.Path {
									dup = true
								}
							}
							if !dup {
								children = append(children, f)
							}
						}
						sub := testutil.GenerateDirectoryFrom(t, ls, rnd, 3000, "/sub", false)
						children = append(children, sub)
						if gg.Var%2 == 0 {
							// a child that comes from a CIDv0 importer: it is linked by the root it has
							v0 := st.PutBlock(0, cid.DagProtobuf, encodePB([]byte{8, 2, 0x12, 3, 'v', '0', byte(gg.Var)}, true, nil))
							children = append(children, testutil.DirEntry{Path: "/from-v0-importer", Content: []byte{'v', '0', byte(gg.Var)}, Root: v0, SelfCids: []cid.Cid{v0}, TSize: 11})
						}
						if gg.Var%3 == 2 {
							// names that path cleaning would swallow are names all the same
							for _, odd := range []string{"/.", "/..", "/...", "/.hidden", "/ leading", "/trailing ", "/tab\t", "/\u00a0nbsp\u00a0", "/ ", "/draft", "/draft "} {
								f := testutil.GenerateFile(t, ls, rnd, 40)
								f.Path = odd
								children = append(children, f)
							}
						}
						if gg.Var%3 == 1 || gg.Var%4 == 0 {
							// identical content under different names: a file and its copy next to each other
							// in name order, a copy further away, two empty files, one sub-directory twice.
							// They share their blocks; they are entries of their own all the same
							twin := children[0]
							for _, nm := range []string{"/twin-a", "/twin-b", "/zz-twin-far"} {
								t2 := twin
								t2.Path = nm
								children = append(children, t2)
							}
							for _, nm := range []string{"/void-1", "/void-2"} {
								e := testutil.GenerateFile(t, ls, rnd, 0)
								e.Path = nm
								children = append(children, e)
							}
							children = append(children, repathEntry(sub, "/sub", "/sub-again"), repathEntry(sub, "/sub", "/tub"))
							c.Count("identical_siblings_built", 7)
						}
						de = testutil.BuildDirectory(t, ls, children, sharded)
					})
					if !okRun {
						err = fmt.Errorf("BuildDirectory failed its own requirements")
					}
				case "WrapContent-exclusive", "WrapContent":
					excl := gg.Name == "WrapContent-exclusive"
					okRun := tt.Run(c.ID, func(t *testing.T) {
						content := testutil.GenerateFile(t, ls, rnd, 500+gg.Var)
						if gg.Var%2 == 1 {
							content = testutil.GenerateDirectory(t, ls, rnd, 3000, gg.Var%4 == 3)
						}
						wp := []string{"want0", "want2/want1/want0", "/a/b/", "x/y/z/w", "/outer//inner", "top//mid//leaf/", "//a"}[(gg.Var+gg.Size)%7]
						de = testutil.WrapContent(t, rnd, ls, content, wp, excl)
					})
					if !okRun {
						err = fmt.Errorf("WrapContent failed its own requirements")
					}
				}
			})
			if !ok || sourceFailed {
				return
			}
			if err != nil {
				c.Violation("C19|"+gg.Name+"|generator-error", "%s(size %d): %v", gg.Name, gg.Size, err)
				return
			}
			// the same generation once more on a store that rejects the k-th block: the generator must
			// either report the failure or return a tree that is completely stored
			if strings.HasPrefix(gg.Name, "UnixFS") && gg.Name != "UnixFSDirectory-custom" && st.Commits > 0 {
				for _, k := range []int{1, 1 + st.Commits/2, st.Commits} {
					fst := store.New()
					fst.IgnoreCtx = true
					fst.FailCommitAt = k
					fls := fst.LinkSystem(false)
					frnd := rand.New(rand.NewSource(int64(c.Seed)))
					var fde testutil.DirEntry
					var ferr error
					c.Guard(gg.Name+" with failing commit", func() {
						switch gg.Name {
						case "UnixFSFile":
							fde, ferr = testutil.UnixFSFile(*fls, gg.Size, testutil.WithRandReader(frnd))
						case "UnixFSDirectory-sharded":
							fde, ferr = testutil.UnixFSDirectory(*fls, gg.Size, testutil.WithRandReader(frnd), testutil.WithShardBitwidth(4))
						default:
							fde, ferr = testutil.UnixFSDirectory(*fls, gg.Size, testutil.WithRandReader(frnd))
						}
					})
					c.Count("generations_with_faults", 1)
					if ferr == nil && fst.InjectedHits > 0 {
						fs := &c19Stats{}
						before := c.Run() // violations below are keyed so that they are distinguishable
						_ = before
						compareEntry(c, gg.Name+"|after-rejected-write", walkerFor(fst), fde, false, 0, fs)
					}
				}
			}
			c.Count("generations", 1)
			stt := &c19Stats{}
			w := walkerFor(st)
			compareEntry(c, gg.Name, w, de, pathRule, 0, stt)
			c.Count("entries_compared", int64(stt.entries))
			c.Max("max_depth", int64(stt.maxDepth))
			c.Count("sharded_levels", int64(stt.shardedLevels))
			// the exported read-back helper must agree with the walker as well
			if gg.Var%2 == 0 && stt.entries < 3000 {
				var rb testutil.DirEntry
				okRun := tt.Run(c.ID+"/ToDirEntry", func(t *testing.T) { rb = testutil.ToDirEntryFrom(t, *ls, de.Root, de.Path, true) })
				if !okRun {
					c.Violation("C19|ToDirEntry|failed", "ToDirEntry could not read back the DAG generated by %s", gg.Name)
				} else {
					stt2 := &c19Stats{}
					compareEntry(c, "ToDirEntry", w, rb, true, 0, stt2)
					c.Count("readbacks_compared", 1)
					if stt2.entries != stt.entries {
						c.Violation("C19|ToDirEntry|entry-count", "%s: read-back has %d entries, generator returned %d", gg.Name, stt2.entries, stt.entries)
					}
					if pathRule {
						okCmp := tt.Run(c.ID+"/Compare", func(t *testing.T) { testutil.CompareDirEntries(t, de, rb) })
						if !okCmp {
							c.Violation("C19|"+gg.Name+"|compare-failed", "CompareDirEntries(generated, read-back) fails for %s(size %d)", gg.Name, gg.Size)
						}
					}
				}
			}
			// the read-back helper on a store from which one nested shard block has gone: told to expect the
			// full DAG it has to fail its test, not hand back a smaller directory as if that were all
			if rn, _ := w.Node(de.Root); sharded && gg.Var%2 == 0 && stt.entries < 3000 && rn != nil && rn.FS != nil && rn.FS.GetType() == 5 {
				if _, shards, _, err := w.HamtWalk(de.Root); err == nil && len(shards) > 1 {
					gone := shards[1+gg.Var%(len(shards)-1)]
					st.Absent = map[string]bool{gone.KeyString(): true}
					scratch := &testing.T{}
					done := make(chan struct{})
					finished := false
					var rb testutil.DirEntry
					go func() {
						defer close(done)
						defer func() { recover() }()
						rb = testutil.ToDirEntryFrom(scratch, *ls, de.Root, de.Path, true)
						finished = true
					}()
					<-done
					st.Absent = nil
					c.Count("readbacks_with_a_missing_shard", 1)
					if finished && !scratch.Failed() {
						stt3 := &c19Stats{}
						countEntries(rb, stt3)
						if stt3.entries < stt.entries {
							c.Violation("C19|ToDirEntry|partial-readback", "%s: with shard block %s missing, ToDirEntryFrom(expectFull=true) did not fail and returned %d of %d entries", gg.Name, gone, stt3.entries, stt.entries)
						}
					}
				}
			}
			sc := "<=8"
			if stt.entries > 8 {
				sc = "<=64"
			}
			if stt.entries > 64 {
				sc = ">64"
			}
			c.Sig(fmt.Sprintf("%s|sharded=%v|depth%d|%s", gg.Name, sharded || stt.shardedLevels > 0, stt.maxDepth, sc), stt.entries >= 2 || st.Len() >= 2)
			if gg.Var == 0 {
				var names []string
				for _, ch := range de.Children {
					names = append(names, ch.Path)
				}
				sort.Strings(names)
				c.Sample(map[string]any{"generator": gg.Name, "root": de.Root.String(), "entries": stt.entries, "top_level": firstN(names, 6)})
			}
		})
	}
}

var _ ipld.Node
