package props

import (
	"bytes"
	"context"
	"errors"
	"fmt"
	"io"
	"io/fs"
	"strings"
	"syscall"
	"testing"

	"github.com/ipfs/go-cid"
	"github.com/ipfs/go-unixfsnode/data/builder"
	"github.com/ipld/go-ipld-prime"
	"github.com/ipld/go-ipld-prime/traversal"
	"github.com/multiformats/go-multihash"

	"github.com/ipfs/go-unixfsnode"
	"github.com/ipld/go-ipld-prime/datamodel"
	"github.com/ipld/go-ipld-prime/node/basicnode"
	sb "github.com/ipld/go-ipld-prime/traversal/selector/builder"
	"verifharness/mon"
	"verifharness/oracle"
	"verifharness/store"
)

// extraErrKinds are further load-error kinds (kind >= 2): errors that wrappers are
// tempted to special-case, the bare io.EOF (a truncated block file) among them.
var extraErrKinds = []error{
	fmt.Errorf("verif store: truncated block: %w", io.ErrUnexpectedEOF),
	io.ErrUnexpectedEOF,
	&fs.PathError{Op: "open", Path: "/blocks/x", Err: syscall.EEXIST},
	&fs.PathError{Op: "open", Path: "/blocks/x", Err: syscall.ENOENT},
	context.Canceled,
	traversal.SkipMe{},
	fmt.Errorf("verif store: connection closed while reading block: %w", io.EOF),
	io.EOF,
}

func errOfKind(kind int) error {
	switch kind {
	case 0:
		return nil // store default: ErrNotFound{cid}
	case 1:
		return store.ErrInjected
	}
	return extraErrKinds[(kind-2)%len(extraErrKinds)]
}

func isInjected(err error, kind int) bool {
	if err == nil {
		return false
	}
	if kind == 0 {
		var nf store.ErrNotFound
		return errors.As(err, &nf)
	}
	// the very error the store returned, possibly wrapped: text that merely quotes it does not count
	want := errOfKind(kind)
	return errors.Is(err, want) || err == want
}

func faultPos(i, n int) string {
	switch {
	case i == 0:
		return "first"
	case i == n-1:
		return "last"
	}
	return "middle"
}

// firstSpanStart returns the content offset where the first occurrence of any
// of the given blocks begins.
func firstSpanStart(spans []oracle.Span, missing map[string]bool) (int64, bool) {
	for _, s := range spans {
		if missing[s.Cid.KeyString()] {
			return s.Start, true
		}
	}
	return 0, false
}

func checkFileFaults(c *mon.Case, f *fileFixture) {
	w := walkerFor(f.St)
	spans, _, err := w.FileSpans(f.Root)
	if err != nil {
		c.Harness("oracle: %v", err)
		return
	}
	all, _ := w.DFS(f.Root, nil)
	blocks := all[1:]
	exact := hasSizeInfo(f.Name)
	exactOrig := exact
	st := f.St.Clone()
	st.Logging = true
	lsCfgSalt++
	cfg := lsCfgSalt % 3
	ls := st.LinkSystemCfg(true, cfg == 1, cfg == 2)
	c.Count(fmt.Sprintf("linksystem_cfg_%d", cfg), 1)
	if cfg == 2 {
		// with Reify installed as NodeReifier every child comes back as a reified bytes node and is
		// read as one unit (AsBytes of the whole sub-tree): the prefix delivered before an error is
		// then coarser; correctness of the prefix and surfacing of the error are still demanded
		exact = false
	}
	_ = exactOrig
	raw, err := loadRaw(st.LinkSystem(false), f.Root)
	if err != nil {
		c.Harness("load: %v", err)
		return
	}
	open := func() io.ReadSeeker {
		n, err := reify(ls, raw)
		if err != nil {
			c.Violation("C12|reify", "lazy reify of %s: %v", f.Name, err)
			return nil
		}
		rs, err := n.(largeBytes).AsLargeBytes()
		if err != nil {
			c.Violation("C12|reify", "AsLargeBytes: %v", err)
			return nil
		}
		return rs
	}
	judge := func(what string, kind int, from int64, got []byte, rerr error, wantLen int64, hit bool) {
		c.Count("reads_checked", 1)
		rest := f.Content[min(int(from), len(f.Content)):]
		if len(got) > len(rest) || !bytes.Equal(got, rest[:len(got)]) {
			c.Violation("C12|file|wrong-bytes", "%s on %s: returned %d bytes that are not a prefix of the content from %d (first difference at %d)", what, f.Name, len(got), from, firstDiff(got, rest))
			return
		}
		if !hit {
			if rerr != nil || len(got) != len(rest) {
				c.Violation("C12|file|spurious-error", "%s on %s: no fault was hit but read returned %d/%d bytes, err %v", what, f.Name, len(got), len(rest), rerr)
			}
			return
		}
		if rerr == nil {
			c.Violation("C12|file|no-error", "%s on %s: a needed block could not be loaded but the read ended with %d bytes and no error (end-of-file)", what, f.Name, len(got))
			return
		}
		if !isInjected(rerr, kind) {
			c.Violation("C12|file|other-error", "%s on %s: error %T %v is not the injected load error", what, f.Name, rerr, rerr)
			return
		}
		c.Count("errors_matched", 1)
		if wantLen >= 0 {
			if exact && int64(len(got)) != wantLen {
				c.Violation("C12|file|wrong-prefix-length", "%s on %s: returned %d correct bytes before the error, %d precede the unavailable block's span", what, f.Name, len(got), wantLen)
			} else if !exact && int64(len(got)) > wantLen {
				c.Violation("C12|file|wrong-prefix-length", "%s on %s: returned %d bytes, more than the %d that precede the unavailable block", what, f.Name, len(got), wantLen)
			}
		}
	}
	// (1) every single block unavailable, both error kinds
	for i, b := range blocks {
		for _, kind := range []int{0, 1, 2 + i%len(extraErrKinds)} {
			st.ClearFaults()
			st.Absent = map[string]bool{b.KeyString(): true}
			st.AbsentErr = errOfKind(kind)
			st.ResetLog()
			rs := open()
			if rs == nil {
				return
			}
			var got []byte
			var rerr error
			if !c.Guard("ReadAll with missing block", func() { got, rerr = io.ReadAll(rs) }) {
				continue
			}
			c.Count("faults_injected", 1)
			start, _ := firstSpanStart(spans, st.Absent)
			judge(fmt.Sprintf("sequential read with block %d/%d unavailable (error kind %d)", i, len(blocks), kind), kind, 0, got, rerr, start-0, true)
			if rerr != nil {
				// the failed read went through a buffer much wider than a block: the reader has to stand
				// right behind the bytes it delivered
				var q int64
				var qerr error
				if c.Guard("position after a failed read", func() { q, qerr = rs.Seek(0, io.SeekCurrent) }) {
					c.Count("positions_checked_after_failed_reads", 1)
					if qerr != nil || q != int64(len(got)) {
						c.Violation("C12|file|position-after-error", "%s: a sequential read delivered %d bytes and then failed with the load error; the reader now reports position (%d, %v)", f.Name, len(got), q, qerr)
					}
				}
			}
			emptySpan := true
			for _, sp := range spans {
				if sp.Cid.Equals(b) && sp.End > sp.Start {
					emptySpan = false
				}
			}
			if kind == 2+i%len(extraErrKinds) && !emptySpan {
				// the same sequential read made in small pieces by a consumer that asks the reader where it
				// is before every piece (a progress meter): asking changes nothing. (Blocks that hold no
				// byte are left out: a position query rebuilds the stream at the current offset, and a
				// stream that starts exactly behind a sub-tree has no use for the empty blocks at that
				// sub-tree's end - whether it visits them is not what the property is about.)
				rs := open()
				if rs == nil {
					return
				}
				piece := 1 + (i+len(blocks))%5
				var got2 []byte
				var rerr2 error
				if c.Guard("piecewise read with position queries", func() {
					buf := make([]byte, piece)
					for steps := 0; steps < 4*len(f.Content)+64; steps++ {
						if _, rerr2 = rs.Seek(0, io.SeekCurrent); rerr2 != nil {
							return
						}
						n, e := rs.Read(buf)
						got2 = append(got2, buf[:n]...)
						if e == io.EOF {
							return
						}
						if e != nil {
							rerr2 = e
							return
						}
					}
					rerr2 = fmt.Errorf("harness: read loop did not end")
				}) {
					c.Count("faults_injected", 1)
					c.Count("piecewise_reads_with_position_queries", 1)
					judge(fmt.Sprintf("sequential read in pieces of %d with a position query before each, block %d/%d unavailable (error kind %d)", piece, i, len(blocks), kind), kind, 0, got2, rerr2, start-0, true)
				}
			}
			c.Sig(fmt.Sprintf("file|%s|single|%s|kind%d", strings.Split(f.Name, "-")[0], faultPos(i, len(blocks)), min(kind, 2)), true)
		}
	}
	// (2) random subsets
	rr := c.Rand()
	for t := 0; t < 12 && len(blocks) >= 2; t++ {
		st.ClearFaults()
		st.Absent = map[string]bool{}
		for j := 0; j < 2+rr.Intn(3); j++ {
			st.Absent[blocks[rr.Intn(len(blocks))].KeyString()] = true
		}
		kind := t % 2
		if kind == 1 {
			st.AbsentErr = store.ErrInjected
		}
		st.ResetLog()
		rs := open()
		if rs == nil {
			return
		}
		var got []byte
		var rerr error
		if !c.Guard("ReadAll with missing subset", func() { got, rerr = io.ReadAll(rs) }) {
			continue
		}
		c.Count("faults_injected", 1)
		start, _ := firstSpanStart(spans, st.Absent)
		judge(fmt.Sprintf("sequential read with %d blocks unavailable", len(st.Absent)), kind, 0, got, rerr, start, true)
		c.Sig(fmt.Sprintf("file|%s|subset|kind%d", strings.Split(f.Name, "-")[0], kind), true)
	}
	// (2b) a transient fault during AsBytes, then AsBytes again on the same node without faults
	for k := 1; k <= min(len(spans), 12); k++ {
		st.ClearFaults()
		n, err := reify(ls, raw)
		if err != nil {
			break
		}
		st.FailReadAt = k
		st.FailErr = store.ErrInjected
		st.ResetLog()
		var first []byte
		var ferr error
		c.Guard("AsBytes with transient fault", func() { first, ferr = n.AsBytes() })
		hit := st.InjectedHits > 0
		st.ClearFaults()
		if !hit {
			break
		}
		c.Count("faults_injected", 1)
		if ferr == nil {
			c.Violation("C12|file|no-error", "AsBytes on %s with load #%d failing returned %d bytes and no error", f.Name, k, len(first))
		}
		var again []byte
		var aerr error
		c.Guard("AsBytes again", func() { again, aerr = n.AsBytes() })
		c.Count("reads_checked", 1)
		if aerr != nil || !bytes.Equal(again, f.Content) {
			c.Violation("C12|file|stale-after-transient-fault", "%s: after load #%d failed once, a second AsBytes on the same node returned %d of %d bytes, err %v", f.Name, k, len(again), len(f.Content), aerr)
		}
	}
	// (3) the k-th load fails once (transient), for every k, from offset 0 and after seeks
	offsets := []int64{0}
	for _, b := range f.Boundaries {
		offsets = append(offsets, b+1, b-1)
	}
	maxLoads := len(spans) + 4
	for _, from := range offsets {
		if from < 0 || from > int64(len(f.Content)) {
			continue
		}
		if from != 0 && rr.Intn(3) != 0 && len(offsets) > 12 {
			continue
		}
		for k := 1; k <= maxLoads; k++ {
			st.ClearFaults()
			st.FailReadAt = k
			kind := k % (2 + len(extraErrKinds))
			if kind == 0 {
				st.FailErr = store.ErrNotFound{Cid: f.Root}
			} else {
				st.FailErr = errOfKind(kind)
			}
			st.ResetLog()
			rs := open()
			if rs == nil {
				return
			}
			var got []byte
			var rerr error
			if !c.Guard("Seek+ReadAll with k-th load failing", func() {
				if from != 0 {
					if k%2 == 0 {
						_, rerr = rs.Seek(from, io.SeekStart)
					} else {
						// end-relative: needs the true length, which may itself need loads
						_, rerr = rs.Seek(from-int64(len(f.Content)), io.SeekEnd)
					}
					if rerr != nil {
						return
					}
				}
				got, rerr = io.ReadAll(rs)
			}) {
				continue
			}
			hit := st.InjectedHits > 0
			if hit {
				c.Count("faults_injected", 1)
			}
			want := int64(-1)
			if hit && from == 0 {
				// which occurrence failed? count earlier loads of the same block
				log := st.Log()
				occ := 0
				var failed string
				for _, e := range log {
					if e.Err != "" {
						failed = e.Cid
						break
					}
				}
				for _, e := range log {
					if e.Err != "" {
						break
					}
					if e.Cid == failed {
						occ++
					}
				}
				for _, s := range spans {
					if s.Cid.String() == failed {
						if occ == 0 {
							want = s.Start
							break
						}
						occ--
					}
				}
			}
			judge(fmt.Sprintf("Seek(%d)+sequential read with load #%d failing once", from, k), kind, from, got, rerr, want, hit)
			if !hit {
				break // fewer than k loads happen; larger k adds nothing
			}
			cls := "seek"
			if from == 0 {
				cls = "start"
			}
			c.Sig(fmt.Sprintf("file|%s|kth|%s|%s", strings.Split(f.Name, "-")[0], cls, faultPos(k-1, maxLoads)), true)
		}
	}
	// (4) a block stays unavailable; the reader is positioned inside (or just before) its span and
	// asked again and again: every attempt has to end in the load error, none in end-of-file
	seenLeaf := map[string]bool{}
	for _, sp := range spans {
		if !sp.Leaf || sp.Depth == 0 || sp.End <= sp.Start || seenLeaf[sp.Cid.KeyString()] {
			continue
		}
		seenLeaf[sp.Cid.KeyString()] = true
		if len(seenLeaf) > 12 && rr.Intn(3) != 0 {
			continue
		}
		for _, pos := range []int64{sp.Start, (sp.Start + sp.End) / 2} {
			st.ClearFaults()
			st.Absent = map[string]bool{sp.Cid.KeyString(): true}
			st.AbsentErr = store.ErrInjected
			st.ResetLog()
			rs := open()
			if rs == nil {
				return
			}
			if _, err := rs.Seek(pos, io.SeekStart); err != nil {
				if !isInjected(err, 1) {
					c.Violation("C12|file|other-error", "Seek(%d) on %s with a block unavailable: %v", pos, f.Name, err)
				}
				continue
			}
			at := pos
			for attempt := 1; attempt <= 3; attempt++ {
				var got []byte
				var rerr error
				if !c.Guard("repeated ReadAll with missing block", func() { got, rerr = io.ReadAll(rs) }) {
					break
				}
				c.Count("reads_checked", 1)
				c.Count("repeated_reads_after_error", 1)
				rest := f.Content[min(int(at), len(f.Content)):]
				if len(got) > len(rest) || !bytes.Equal(got, rest[:len(got)]) {
					c.Violation("C12|file|wrong-bytes", "attempt %d to read %s from %d with the block at [%d,%d) unavailable returned %d bytes that are not the content there", attempt, f.Name, at, sp.Start, sp.End, len(got))
					break
				}
				at += int64(len(got))
				if rerr == nil {
					c.Violation("C12|file|no-error", "attempt %d to read %s from %d with the block at [%d,%d) unavailable ended in end-of-file after %d bytes", attempt, f.Name, pos, sp.Start, sp.End, at-pos)
					break
				}
				if !isInjected(rerr, 1) {
					c.Violation("C12|file|other-error", "attempt %d on %s: error %T %v is not the injected load error", attempt, f.Name, rerr, rerr)
					break
				}
				if attempt == 3 {
					// the block comes back; the same reader is asked once more, without repositioning it.
					// It may go on failing, but whatever bytes it now delivers are the content from where
					// it stood - and if it reaches the end without an error, all of it
					st.ClearFaults()
					var more []byte
					var merr error
					if !c.Guard("ReadAll after the block came back", func() { more, merr = io.ReadAll(rs) }) {
						break
					}
					c.Count("reads_checked", 1)
					c.Count("reads_after_block_came_back", 1)
					rest := f.Content[min(int(at), len(f.Content)):]
					if len(more) > len(rest) || !bytes.Equal(more, rest[:len(more)]) || (merr == nil && len(more) != len(rest)) {
						c.Violation("C12|file|wrong-bytes", "%s: after three failed attempts at position %d (block at [%d,%d) unavailable) the block came back; the same reader then returned %d bytes, err %v, which is not the content from %d on (%d bytes, first difference at %d)", f.Name, at, sp.Start, sp.End, len(more), merr, at, len(rest), firstDiff(more, rest))
					}
				}
			}
		}
	}
	// (7) a byte range of the file consumed by a traversal (range matcher + BytesConsumingMatcher) while a
	// block inside the range is unavailable: the walk reports the load error
	if exact && len(spans) >= 3 {
		tries := 0
		for _, sp := range spans {
			if !sp.Leaf || sp.Depth == 0 || sp.End <= sp.Start || tries >= 8 {
				continue
			}
			tries++
			a, b := sp.Start, sp.End
			if a > 0 && tries%2 == 0 {
				a--
			}
			if b < int64(len(f.Content)) && tries%3 == 0 {
				b++
			}
			for _, missing := range []bool{false, true} {
				st.ClearFaults()
				if missing {
					st.Absent = map[string]bool{sp.Cid.KeyString(): true}
					st.AbsentErr = store.ErrInjected
				}
				st.ResetLog()
				var werr error
				c.Guard("range matcher + BytesConsumingMatcher", func() {
					ssb := sb.NewSelectorSpecBuilder(basicnode.Prototype.Any)
					sel, e := ssb.ExploreInterpretAs("unixfs", ssb.MatcherSubset(a, b)).Selector()
					if e != nil {
						werr = fmt.Errorf("harness: %w", e)
						return
					}
					werr = progressFor(ls).WalkMatching(raw, sel, unixfsnode.BytesConsumingMatcher)
				})
				c.Count("range_consuming_walks", 1)
				loaded := uniq(st.ReadCids())
				switch {
				case !missing && (werr != nil || !loaded[sp.Cid.String()]):
					c.Violation("C12|file|range-consume", "%s: consuming bytes [%d,%d) by a traversal: err %v, block of that range loaded: %v", f.Name, a, b, werr, loaded[sp.Cid.String()])
				case missing && werr == nil:
					c.Violation("C12|file|no-error", "%s: consuming bytes [%d,%d) by a traversal with the block at [%d,%d) unavailable finished without an error (blocks loaded: %d)", f.Name, a, b, sp.Start, sp.End, len(loaded))
				case missing && !isInjected(werr, 1):
					c.Violation("C12|file|other-error", "%s: range-consuming walk: error %T %v is not the injected load error", f.Name, werr, werr)
				}
			}
		}
		st.ClearFaults()
	}
	// (6) the length of ONE node is asked for (an end-relative seek) while a load fails once; a second
	// reader obtained from the same node after the outage must see the true length
	if l := int64(len(f.Content)); l >= 4 {
		for k := 1; k <= len(spans)+2; k++ {
			st.ClearFaults()
			n, err := reify(ls, raw)
			if err != nil {
				break
			}
			lb, ok := n.(largeBytes)
			if !ok {
				break
			}
			r1, err := lb.AsLargeBytes()
			if err != nil {
				break
			}
			st.ResetLog()
			st.FailReadAt = k
			st.FailErr = store.ErrInjected
			c.Guard("end-relative seek with a load failing once", func() { r1.Seek(-2, io.SeekEnd) })
			hit := st.InjectedHits > 0
			st.ClearFaults()
			if !hit {
				break // declared sizes: no load needed, or fewer than k loads
			}
			var pos int64
			var tail []byte
			var serr error
			c.Guard("a second reader of the same node after the outage", func() {
				r2, e := lb.AsLargeBytes()
				if e != nil {
					serr = e
					return
				}
				if pos, serr = r2.Seek(-3, io.SeekEnd); serr == nil {
					tail, serr = io.ReadAll(r2)
				}
			})
			c.Count("reads_checked", 1)
			c.Count("length_after_transient_fault", 1)
			if serr != nil || pos != l-3 || !bytes.Equal(tail, f.Content[l-3:]) {
				c.Violation("C12|file|stale-after-transient-fault", "%s: after load #%d failed once during an end-relative seek, a second reader of the same node gives Seek(-3,End) = (%d, %v) and %d tail bytes; the file has %d bytes", f.Name, k, pos, serr, len(tail), l)
				break
			}
		}
	}
	// (5) a reader that is already streaming is moved forward across block boundaries while the next
	// load fails once: what it then returns is the content at the new position or the load error,
	// and after the outage the same reader serves the right bytes
	if int64(len(f.Content)) >= 3 {
		for t := 0; t < 10; t++ {
			st.ClearFaults()
			st.ResetLog()
			rs := open()
			if rs == nil {
				return
			}
			l := int64(len(f.Content))
			first := 1 + rr.Int63n(min64(l-1, 3))
			buf := make([]byte, first)
			if _, err := io.ReadFull(rs, buf); err != nil || !bytes.Equal(buf, f.Content[:first]) {
				c.Violation("C12|file|spurious-error", "reading the first %d bytes of %s without faults: %v", first, f.Name, err)
				break
			}
			target := first + rr.Int63n(l-first)
			st.ResetLog()
			st.FailReadAt = 1 + rr.Intn(2)
			st.FailErr = store.ErrInjected
			var got []byte
			var rerr error
			if !c.Guard("forward Seek on a streaming reader + ReadAll with the next load failing once", func() {
				if _, rerr = rs.Seek(target, io.SeekStart); rerr == nil {
					got, rerr = io.ReadAll(rs)
				}
			}) {
				continue
			}
			hit := st.InjectedHits > 0
			c.Count("reads_checked", 1)
			c.Count("forward_seeks_on_streaming_readers", 1)
			rest := f.Content[target:]
			if len(got) > len(rest) || !bytes.Equal(got, rest[:len(got)]) {
				c.Violation("C12|file|wrong-bytes", "%s: after reading %d bytes, Seek(%d) and reading on with one load failing once returned %d bytes that are not the content at %d (first difference at %d)", f.Name, first, target, len(got), target, firstDiff(got, rest))
				break
			}
			if hit && rerr == nil && len(got) != len(rest) {
				c.Violation("C12|file|no-error", "%s: a load failed while moving a streaming reader to %d, yet the read ended after %d of %d bytes without an error", f.Name, target, len(got), len(rest))
				break
			}
			if rerr != nil && !isInjected(rerr, 1) {
				c.Violation("C12|file|other-error", "%s: error %T %v is not the injected load error", f.Name, rerr, rerr)
				break
			}
			// the outage is over
			st.ClearFaults()
			var again []byte
			var aerr error
			c.Guard("the same reader after the outage", func() {
				if _, aerr = rs.Seek(target, io.SeekStart); aerr == nil {
					again, aerr = io.ReadAll(rs)
				}
			})
			if aerr != nil || !bytes.Equal(again, rest) {
				c.Violation("C12|file|stale-after-transient-fault", "%s: after the outage, Seek(%d)+ReadAll on the same reader returned %d of %d bytes, err %v", f.Name, target, len(again), len(rest), aerr)
				break
			}
		}
	}
	st.ClearFaults()
}

func min64(a, b int64) int64 {
	if a < b {
		return a
	}
	return b
}

func checkDirFaults(c *mon.Case, d dirCase) {
	names := namesFor(c, d)
	base := store.New()
	entries, model, _ := childEntries(base, names)
	l, _, err := builder.BuildUnixFSShardedDirectory(d.Fanout, multihash.MURMUR3X64_64, entries, base.LinkSystem(false))
	if err != nil {
		return
	}
	root := linkCid(l)
	w := walkerFor(base)
	ents, shards, depth, err := w.HamtWalk(root)
	if err != nil {
		c.Harness("oracle: %v", err)
		return
	}
	if len(shards) < 2 {
		return
	}
	// parent chain of every shard and of every entry
	parent := map[string]string{}
	var links int
	for _, s := range shards {
		n, _ := w.Node(s)
		links += len(n.Links)
		for _, l := range n.Links {
			if oracle.IsShardLink(n, l) {
				parent[l.Cid.KeyString()] = s.KeyString()
			}
		}
	}
	under := func(shard string, missing map[string]bool) bool {
		for s := shard; s != ""; s = parent[s] {
			if missing[s] {
				return true
			}
		}
		return false
	}
	st := base.Clone()
	st.Logging = true
	ls := st.LinkSystem(true)
	raw, err := loadRaw(ls, root)
	if err != nil {
		c.Harness("load: %v", err)
		return
	}
	probes := append([]string(nil), names...)
	if len(probes) > 120 {
		mon.Shuffle(c.Rand(), probes)
		probes = probes[:120]
	}
	for _, n := range probes[:min(len(probes), 40)] {
		probes = append(probes, n+"x")
	}
	planNo := 0
	lookupNo := 0
	runPlan := func(what string, missing map[string]bool, kind int) {
		st.ClearFaults()
		st.Absent = missing
		st.AbsentErr = errOfKind(kind)
		// lookups on a fresh node
		node, err := reify(ls, raw)
		if err != nil {
			c.Violation("C12|reify", "%v", err)
			return
		}
		// what the node was used for before must not matter: nothing, a Length() that could not
		// complete, or a listing that skipped the unavailable shards
		planNo++
		switch planNo % 3 {
		case 1:
			c.Guard("Length with missing shard", func() { node.Length() })
			c.Count("lookups_after_failed_length", 1)
		case 2:
			c.Guard("listing with missing shard", func() {
				it := node.MapIterator()
				for i := 0; !it.Done() && i < links+len(shards)+2; i++ {
					it.Next()
				}
			})
			c.Count("lookups_after_partial_listing", 1)
		}
		probes = append(probes, "")
		for _, name := range probes {
			path, found, err := w.HamtLookupPath(root, name)
			if err != nil {
				c.Harness("oracle path: %v", err)
				return
			}
			crosses := false
			for _, p := range path {
				if missing[p.KeyString()] {
					crosses = true
				}
			}
			var v ipld.Node
			var lerr error
			// the entry points rotate: by string, by segment, by a plain string node and by a dag-pb typed
			// string node (the kind the directory's own iterators hand out)
			lookupNo++
			ep := lookupNo % 4
			if !c.Guard("lookup with missing shard", func() {
				switch ep {
				case 0:
					v, lerr = node.LookupByString(name)
				case 1:
					v, lerr = node.LookupBySegment(datamodel.PathSegmentOfString(name))
				case 2:
					v, lerr = node.LookupByNode(basicnode.NewString(name))
				default:
					v, lerr = node.LookupByNode(pbString(name))
				}
			}) {
				continue
			}
			c.Count("lookups_checked", 1)
			c.Count(fmt.Sprintf("lookups_entry_point_%d", ep), 1)
			switch {
			case crosses:
				if lerr == nil {
					c.Violation("C12|dir|lookup-no-error", "%s: lookup of %q crosses an unavailable shard but returned a value", what, name)
				} else if isNotFound(lerr) {
					c.Violation("C12|dir|lookup-not-found", "%s: lookup of %q crosses an unavailable shard but reported not-found", what, name)
				} else if !isInjected(lerr, kind) {
					c.Violation("C12|dir|lookup-other-error", "%s: LookupByString(%q): error %T %v is not the load error", what, name, lerr, lerr)
				} else {
					c.Count("errors_matched", 1)
				}
			case found != nil:
				got, e := asCid(v)
				if lerr != nil || e != nil || !got.Equals(model[name]) {
					c.Violation("C12|dir|lookup-unaffected-wrong", "%s: LookupByString(%q) avoids the unavailable shards but returned (%v, %v)", what, name, got, lerr)
				}
			default:
				if !isNotFound(lerr) {
					c.Violation("C12|dir|lookup-unaffected-wrong", "%s: LookupByString(%q) of a non-member avoiding the unavailable shards returned %v", what, name, lerr)
				}
			}
		}
		// the preloading constructor must report the load error as well
		c.Guard("unixfs-preload with missing shard", func() {
			_, perr := ls.KnownReifiers["unixfs-preload"](ipld.LinkContext{Ctx: bg}, raw, ls)
			c.Count("preloads_checked", 1)
			if perr == nil {
				c.Violation("C12|dir|preload-no-error", "%s: the preloading reifier returned no error", what)
			} else if !isInjected(perr, kind) && !strings.Contains(perr.Error(), "could not fully explore") {
				c.Violation("C12|dir|preload-other-error", "%s: preload error %T %v is not the load error", what, perr, perr)
			}
		})
		// iteration on a fresh node, bounded by a logical step budget
		node, _ = reify(ls, raw)
		c.Guard("iteration with missing shards", func() {
			it := node.MapIterator()
			bound := links + len(shards) + 2
			seen := map[string]int{}
			errs := 0
			steps := 0
			for !it.Done() {
				steps++
				if steps > bound {
					c.Violation("C12|dir|iteration-unbounded", "%s: iteration did not finish within %d Next calls (%d links, %d shards)", what, bound, links, len(shards))
					return
				}
				k, v, err := it.Next()
				if err != nil {
					errs++
					if !isInjected(err, kind) {
						c.Violation("C12|dir|iteration-other-error", "%s: iteration error %T %v is not the load error", what, err, err)
					}
					continue
				}
				ks, _ := k.AsString()
				got, _ := asCid(v)
				if want, ok := model[ks]; !ok || !got.Equals(want) {
					c.Violation("C12|dir|iteration-wrong-entry", "%s: iteration yielded %q -> %v", what, ks, got)
				}
				seen[ks]++
			}
			c.Count("iterations_checked", 1)
			wantErrs := 0
			for m := range missing {
				if p, ok := parent[m]; ok && !under(p, missing) {
					wantErrs++
				}
			}
			for _, e := range ents {
				want := 1
				if under(e.Shard.KeyString(), missing) {
					want = 0
				}
				if seen[e.Name] != want {
					c.Violation("C12|dir|iteration-multiplicity", "%s: entry %q yielded %d times, want %d", what, e.Name, seen[e.Name], want)
					break
				}
			}
			if errs != wantErrs {
				c.Violation("C12|dir|iteration-error-count", "%s: iteration reported %d errors, %d unavailable shards are met", what, errs, wantErrs)
			} else {
				c.Count("errors_matched", int64(errs))
			}
		})
	}
	for i, s := range shards[1:] {
		for _, kind := range []int{0, 1, 2 + i%len(extraErrKinds)} {
			if kind >= 1 && len(shards) > 20 && i%4 != 0 {
				continue
			}
			c.Count("faults_injected", 1)
			runPlan(fmt.Sprintf("fanout %d depth %d, shard %d/%d unavailable (kind %d)", d.Fanout, depth+1, i+1, len(shards)-1, kind), map[string]bool{s.KeyString(): true}, kind)
			c.Sig(fmt.Sprintf("dir|f%d|d%d|single|%s|kind%d", d.Fanout, depth+1, faultPos(i, len(shards)-1), kind), true)
		}
	}
	rr := c.Rand()
	for t := 0; t < 8 && len(shards) >= 3; t++ {
		m := map[string]bool{}
		for j := 0; j < 2+rr.Intn(4); j++ {
			m[shards[1+rr.Intn(len(shards)-1)].KeyString()] = true
		}
		c.Count("faults_injected", 1)
		runPlan(fmt.Sprintf("fanout %d depth %d, %d shards unavailable", d.Fanout, depth+1, len(m)), m, t%2)
		c.Sig(fmt.Sprintf("dir|f%d|d%d|subset", d.Fanout, depth+1), true)
	}
	c.Max("max_hamt_depth", int64(depth+1))
}

func TestC12(t *testing.T) {
	r := mon.Start(t, "C12")
	defer r.Close()
	for _, f := range fileFixtures(newRand(r.SeedFor("fixtures")), !r.Quick()) {
		f := f
		r.Case("file/"+f.Name, map[string]any{"fixture": f.Name, "len": len(f.Content), "root": f.Root.String()}, func(c *mon.Case) {
			checkFileFaults(c, f)
		})
	}
	seen := map[string]bool{}
	i := 0
	for _, d := range dirCases(r) {
		d := d
		if d.Builder != "sharded" || d.N < 2 || d.N > 400 || seen[d.id()] {
			continue
		}
		if !(d.Family == "crafted" || d.Family == "crafted+filler" || d.N >= d.Fanout) {
			continue
		}
		seen[d.id()] = true
		i++
		if r.Quick() && i%2 != 0 {
			continue
		}
		r.Case("dir/"+d.id(), d, func(c *mon.Case) { checkDirFaults(c, d) })
	}
}

var _ = cid.Undef
