package props

import (
	"errors"
	"math"
	"bytes"
	"fmt"
	"io"
	"math/bits"
	"math/rand"
	"strings"
	"sync/atomic"
	"testing"

	"github.com/gogo/protobuf/proto"
	pb "github.com/ipfs/boxo/ipld/unixfs/pb"
	"github.com/ipfs/go-cid"
	"github.com/ipfs/go-unixfsnode"
	"github.com/ipfs/go-unixfsnode/data"
	"github.com/ipfs/go-unixfsnode/data/builder"
	"github.com/ipfs/go-unixfsnode/file"
	"github.com/ipfs/go-unixfsnode/hamt"
	dagpb "github.com/ipld/go-codec-dagpb"
	"github.com/ipld/go-ipld-prime"
	"github.com/ipld/go-ipld-prime/codec/dagcbor"
	"github.com/ipld/go-ipld-prime/datamodel"
	"github.com/ipld/go-ipld-prime/fluent/qp"
	cidlink "github.com/ipld/go-ipld-prime/linking/cid"
	"github.com/ipld/go-ipld-prime/node/basicnode"
	"github.com/multiformats/go-multihash"

	"verifharness/gen"
	"verifharness/mon"
	"verifharness/oracle"
	"verifharness/store"
)

// countingNode passes everything through to the wrapped node and counts how
// often the Data field is looked up.
type countingNode struct {
	ipld.Node
	data *int64
}

func (c countingNode) LookupByString(key string) (ipld.Node, error) {
	if key == "Data" {
		atomic.AddInt64(c.data, 1)
	}
	return c.Node.LookupByString(key)
}

// ---- hostile DAG construction ----

type hostile struct {
	st      *store.Store
	r       *rand.Rand
	built   []cid.Cid
	classes map[string]bool
}

func (h *hostile) missingCid() cid.Cid {
	b := make([]byte, 8)
	h.r.Read(b)
	mh, _ := multihash.Sum(b, multihash.SHA2_256, -1)
	codec := []uint64{cid.Raw, cid.DagProtobuf, cid.DagCBOR}[h.r.Intn(3)]
	return cid.NewCidV1(codec, mh)
}

// cborValue builds a random small dag-cbor value of any kind; maps and lists
// nest one level and may hold links to stored blocks.
func cborValue(r *rand.Rand, st *store.Store, depth int) datamodel.Node {
	k := r.Intn(10)
	if depth >= 2 && k >= 6 {
		k = r.Intn(6)
	}
	switch k {
	case 0:
		return basicnode.NewInt(int64(r.Intn(7)) - 2)
	case 1:
		b := make([]byte, r.Intn(6))
		r.Read(b)
		return basicnode.NewBytes(b)
	case 2:
		return basicnode.NewString([]string{"", "a", "Hash", "00"}[r.Intn(4)])
	case 3:
		return datamodel.Null
	case 4:
		return basicnode.NewBool(r.Intn(2) == 0)
	case 5:
		return basicnode.NewLink(cidlink.Link{Cid: st.PutBlock(1, cid.Raw, []byte{byte(r.Intn(4))})})
	case 6, 7:
		n, err := qp.BuildList(basicnode.Prototype.Any, -1, func(la datamodel.ListAssembler) {
			for i := r.Intn(4); i > 0; i-- {
				qp.ListEntry(la, qp.Node(cborValue(r, st, depth+1)))
			}
		})
		if err != nil {
			return datamodel.Null
		}
		return n
	default:
		keys := []string{"Hash", "Name", "Tsize", "Data", "Links", "x"}
		mon.Shuffle(r, keys)
		n, err := qp.BuildMap(basicnode.Prototype.Any, -1, func(ma datamodel.MapAssembler) {
			for _, k := range keys[:r.Intn(4)] {
				qp.MapEntry(ma, k, qp.Node(cborValue(r, st, depth+1)))
			}
		})
		if err != nil {
			return datamodel.Null
		}
		return n
	}
}

// cborShape encodes a dag-cbor block that looks like a node with Data and
// Links fields of arbitrary kinds.
func cborShape(r *rand.Rand, st *store.Store) []byte {
	n, err := qp.BuildMap(basicnode.Prototype.Any, -1, func(ma datamodel.MapAssembler) {
		if r.Intn(4) != 0 {
			qp.MapEntry(ma, "Data", qp.Node(cborValue(r, st, 1)))
		}
		if r.Intn(6) != 0 {
			qp.MapEntry(ma, "Links", qp.Node(cborValue(r, st, 0)))
		}
	})
	var buf bytes.Buffer
	if err != nil || dagcbor.Encode(n, &buf) != nil {
		return []byte{0xa0}
	}
	return buf.Bytes()
}

func (h *hostile) leaf() cid.Cid {
	switch h.r.Intn(7) {
	case 0, 1:
		b := make([]byte, h.r.Intn(24))
		h.r.Read(b)
		return h.st.PutBlock(1, cid.Raw, b)
	case 2:
		// dag-cbor blocks of shapes a file/directory reader may stumble on
		cb := [][]byte{
			{0xa1, 0x65, 'L', 'i', 'n', 'k', 's', 0x05},                                       // {"Links": 5}
			{0xa1, 0x65, 'L', 'i', 'n', 'k', 's', 0x80},                                       // {"Links": []}
			{0xa2, 0x64, 'D', 'a', 't', 'a', 0x41, 0x08, 0x65, 'L', 'i', 'n', 'k', 's', 0x80}, // {"Data": h'08', "Links": []}
			{0x80},          // []
			{0x43, 1, 2, 3}, // bytes
			{0xa0},          // {}
			{0xa1, 0x65, 'L', 'i', 'n', 'k', 's', 0x81, 0x01}, // {"Links": [1]}
			{0xa1, 0x65, 'L', 'i', 'n', 'k', 's', 0x81, 0xa0}, // {"Links": [{}]}
			{0xf6}, // null
		}
		if h.r.Intn(2) == 0 {
			return h.st.PutBlock(1, cid.DagCBOR, cborShape(h.r, h.st))
		}
		return h.st.PutBlock(1, cid.DagCBOR, cb[h.r.Intn(len(cb))])
	default:
		d, has, class := gen.HostileData(h.r, 0)
		h.classes[class] = true
		ver := 1
		if h.r.Intn(5) == 0 {
			ver = 0
		}
		return h.st.PutBlock(ver, cid.DagProtobuf, encodePB(d, has, nil))
	}
}

func (h *hostile) node(depth int) cid.Cid {
	if depth == 0 || h.r.Intn(4) == 0 {
		c := h.leaf()
		h.built = append(h.built, c)
		return c
	}
	k := 1 + h.r.Intn(4)
	var links []pbLinkSpec
	for i := 0; i < k; i++ {
		var target cid.Cid
		switch x := h.r.Intn(10); {
		case x == 0:
			target = h.missingCid()
			h.classes["link-to-missing"] = true
		case x <= 2 && len(h.built) > 0:
			target = h.built[h.r.Intn(len(h.built))]
			h.classes["shared-child"] = true
		default:
			target = h.node(depth - 1)
		}
		l := pbLinkSpec{Cid: target, Name: gen.HostileName(h.r, i)}
		switch h.r.Intn(5) {
		case 0:
		case 1:
			l.Tsize = u64p(0)
		case 2:
			l.Tsize = u64p(uint64(h.r.Intn(40)))
		case 3:
			l.Tsize = u64p([]uint64{1 << 31, 1 << 40, 1<<63 - 1}[h.r.Intn(3)])
		default:
			l.Tsize = u64p(uint64(h.r.Intn(8)))
		}
		links = append(links, l)
	}
	d, has, class := gen.HostileData(h.r, k)
	h.classes[class] = true
	c := h.st.PutBlock(1, cid.DagProtobuf, encodePB(d, has, links))
	h.built = append(h.built, c)
	return c
}

// mutateWellFormed takes a DAG written by the library's builders and corrupts
// one block on a random path, re-linking the ancestors.
func mutateWellFormed(st *store.Store, r *rand.Rand, root cid.Cid) (cid.Cid, string) {
	w := walkerFor(st)
	// pick a random root-to-node path
	path := []cid.Cid{root}
	var idxs []int
	for {
		n, err := w.Node(path[len(path)-1])
		if err != nil || !n.IsPB || len(n.Links) == 0 || r.Intn(3) == 0 {
			break
		}
		i := r.Intn(len(n.Links))
		if _, ok := st.Get(n.Links[i].Cid); !ok {
			break
		}
		idxs = append(idxs, i)
		path = append(path, n.Links[i].Cid)
	}
	// find the deepest pb node on the path to mutate
	for len(path) > 1 {
		if n, err := w.Node(path[len(path)-1]); err == nil && n.IsPB {
			break
		}
		path = path[:len(path)-1]
		idxs = idxs[:len(idxs)-1]
	}
	victim, err := w.Node(path[len(path)-1])
	if err != nil || !victim.IsPB {
		return root, "none"
	}
	links := make([]pbLinkSpec, len(victim.Links))
	for i, l := range victim.Links {
		links[i] = pbLinkSpec{Cid: l.Cid}
		if l.HasName {
			links[i].Name = strp(l.Name)
		}
		if l.HasSize {
			links[i].Tsize = u64p(l.Tsize)
		}
	}
	dataB, hasData := victim.Data, victim.HasData
	class := ""
	var m pb.Data
	decoded := hasData && proto.Unmarshal(dataB, &m) == nil
	big := []uint64{0, 1, 3, 7, 1 << 31, 1<<62 + 1, 1 << 63, ^uint64(0)}
	switch x := r.Intn(16); {
	case x == 0 && decoded:
		m.Fanout = proto.Uint64([]uint64{0, 1, 3, 8, 16, 32, 1024, 2048, 1 << 62}[r.Intn(9)])
		class = "fanout-changed"
	case x == 1 && decoded:
		m.Data = append(append([]byte(nil), m.Data...), make([]byte, 1+r.Intn(3))...)
		class = "bitfield-or-data-longer"
	case x == 2 && decoded && len(m.Data) > 0:
		m.Data = m.Data[:r.Intn(len(m.Data))]
		class = "bitfield-or-data-shorter"
	case x == 3 && decoded:
		for i := range m.Data {
			m.Data[i] = 0xff
		}
		if len(m.Data) == 0 {
			m.Data = []byte{0xff}
		}
		class = "bitfield-all-ones"
	case x == 4 && decoded:
		t := pb.Data_DataType(r.Intn(8))
		m.Type = &t
		class = "type-changed"
	case x == 5 && decoded:
		m.Filesize = proto.Uint64(big[r.Intn(len(big))])
		class = "filesize-changed"
	case x == 6 && decoded:
		switch r.Intn(4) {
		case 0:
			m.Blocksizes = nil
		case 1:
			if len(m.Blocksizes) > 0 {
				m.Blocksizes = m.Blocksizes[:len(m.Blocksizes)-1]
			}
		case 2:
			m.Blocksizes = append(m.Blocksizes, big[r.Intn(len(big))])
		default:
			for i := range m.Blocksizes {
				m.Blocksizes[i] = big[r.Intn(len(big))]
			}
		}
		class = "blocksizes-changed"
	case x == 7 && decoded:
		m.HashType = proto.Uint64(uint64(r.Intn(3)))
		class = "hashtype-changed"
	case x == 8 && len(links) > 0:
		i := r.Intn(len(links))
		links[i].Name = gen.HostileName(r, i)
		class = "link-renamed"
	case x == 9 && len(links) > 0:
		i := r.Intn(len(links))
		if links[i].Name != nil && len(*links[i].Name) > 0 {
			links[i].Name = strp((*links[i].Name)[:r.Intn(len(*links[i].Name))])
		}
		class = "link-name-truncated"
	case x == 10 && len(links) > 0:
		i := r.Intn(len(links))
		links = append(links[:i], links[i+1:]...)
		class = "link-dropped"
	case x == 11 && len(links) > 0:
		links = append(links, links[r.Intn(len(links))])
		class = "link-duplicated"
	case x == 12 && len(links) > 0:
		i := r.Intn(len(links))
		b := make([]byte, 6)
		r.Read(b)
		switch r.Intn(4) {
		case 0:
			links[i].Cid = st.PutBlock(1, cid.Raw, b)
		case 1:
			links[i].Cid = st.PutBlock(1, cid.DagCBOR, []byte{0xa1, 0x65, 'L', 'i', 'n', 'k', 's', 0x05})
		case 2:
			mh, _ := multihash.Sum(b, multihash.SHA2_256, -1)
			links[i].Cid = cid.NewCidV1(cid.DagProtobuf, mh)
		default:
			links[i].Cid = root
		}
		class = "link-retargeted"
	case x == 13 && len(links) > 0:
		i := r.Intn(len(links))
		links[i].Tsize = u64p(big[r.Intn(len(big))] >> 1)
		if r.Intn(3) == 0 {
			links[i].Tsize = nil
		}
		class = "tsize-changed"
	case x == 14:
		hasData = false
		decoded = false
		class = "data-removed"
	default:
		if len(links) > 1 {
			i, j := r.Intn(len(links)), r.Intn(len(links))
			links[i], links[j] = links[j], links[i]
		}
		class = "links-swapped"
	}
	if decoded {
		if b, err := proto.Marshal(&m); err == nil {
			dataB = b
		}
	}
	newCid := st.PutBlock(int(victim.Cid.Version()), cid.DagProtobuf, encodePB(dataB, hasData, links))
	// re-link ancestors
	for level := len(path) - 2; level >= 0; level-- {
		p, _ := w.Node(path[level])
		pl := make([]pbLinkSpec, len(p.Links))
		for i, l := range p.Links {
			pl[i] = pbLinkSpec{Cid: l.Cid}
			if l.HasName {
				pl[i].Name = strp(l.Name)
			}
			if l.HasSize {
				pl[i].Tsize = u64p(l.Tsize)
			}
		}
		pl[idxs[level]].Cid = newCid
		newCid = st.PutBlock(int(p.Cid.Version()), cid.DagProtobuf, encodePB(p.Data, p.HasData, pl))
	}
	return newCid, class
}

// dagMeasure computes the number of root-to-node paths, links over paths and
// payload bytes over paths (the natural measure of "the data it was given").
func dagMeasure(st *store.Store, root cid.Cid) (paths, links int, payload int64) {
	w := walkerFor(st)
	type m struct {
		p, l int
		b    int64
	}
	memo := map[string]m{}
	var rec func(c cid.Cid, depth int) m
	rec = func(c cid.Cid, depth int) m {
		if v, ok := memo[c.KeyString()]; ok {
			return v
		}
		out := m{p: 1}
		raw, ok := st.Get(c)
		if !ok || depth > 300 {
			return out
		}
		out.b = int64(len(raw))
		if n, err := w.Node(c); err == nil {
			for _, l := range n.Links {
				ch := rec(l.Cid, depth+1)
				out.p += ch.p
				out.l += 1 + ch.l
				out.b += ch.b
				// stacked DAGs have astronomically many paths: saturate instead of overflowing
				const sat = 1 << 40
				if out.p > sat || out.p < 0 {
					out.p = sat
				}
				if out.l > sat || out.l < 0 {
					out.l = sat
				}
				if out.b > sat || out.b < 0 {
					out.b = sat
				}
			}
		}
		memo[c.KeyString()] = out
		return out
	}
	r := rec(root, 0)
	return r.p, r.l, r.b
}

type nativeLookup interface {
	Lookup(key dagpb.String) dagpb.Link
}

func pbString(s string) dagpb.String {
	nb := dagpb.Type.String.NewBuilder()
	nb.AssignString(s)
	return nb.Build().(dagpb.String)
}

// exerciseNode drives every operation of a reified node, each under its own
// recover and logical budget.
type hookBudgetExceeded struct{}

func exerciseNode(c *mon.Case, st *store.Store, how string, n ipld.Node, keys []string, paths, links int, payload int64) {
	blocks := st.Len()
	hookBudgetBlocks := int64(64*blocks + 256)
	hookBudgetPaths := int64(64*(blocks+paths) + 256)
	exponential := paths > 20000 // stacked DAGs: iteration and reads are legitimately proportional to the number of paths
	if exponential {
		paths, links = blocks, blocks*1024
	}
	loadBudget := 64*(paths+links+4) + 200
	nextBudget := 4*(links+paths) + 16
	op := func(name string, f func()) {
		st.ResetLog()
		st.LoadBudget = loadBudget
		c.Count("operations", 1)
		// logical work budget on the memoisation hook sites: a correct reader passes them at most a
		// few times per block of the DAG; exceeding the budget aborts the call from inside the hook
		var events int64
		exceeded := false
		hookBudget := hookBudgetBlocks
		if strings.HasPrefix(name, "reader.") || name == "AsBytes" || strings.HasSuffix(name, "Iterator") {
			hookBudget = hookBudgetPaths // reading / iterating visits every path
		}
		hook := func(string) {
			if atomic.AddInt64(&events, 1) > hookBudget {
				panic(hookBudgetExceeded{})
			}
		}
		hamt.SetVerifHook(hook)
		file.SetVerifHook(hook)
		c.Guard(how+"."+name, func() {
			defer func() {
				if p := recover(); p != nil {
					if _, ok := p.(hookBudgetExceeded); ok {
						exceeded = true
						return
					}
					panic(p)
				}
			}()
			f()
		})
		hamt.SetVerifHook(nil)
		file.SetVerifHook(nil)
		c.Max("max_hook_events_per_op", atomic.LoadInt64(&events))
		if exceeded {
			c.Violation("C13|unbounded-work|"+name, "%s.%s passed the memoisation sites more than %d times for a DAG of %d blocks and %d paths: work is not proportional to the data", how, name, hookBudget, blocks, paths)
		}
		if st.BudgetExceeded {
			c.Violation("C13|unbounded-loads|"+name, "%s.%s requested more than %d blocks from storage for a DAG with %d paths and %d links", how, name, loadBudget, paths, links)
		}
		c.Max("max_loads_per_op", int64(st.Reads))
		st.LoadBudget = 0
		c.Sig(name, true)
	}
	op("Kind", func() { n.Kind() })
	op("Length", func() { n.Length() })
	op("IsNull", func() { n.IsNull(); n.IsAbsent() })
	for _, k := range keys {
		k := k
		op("LookupByString", func() {
			v, err := n.LookupByString(k)
			if err == nil && v == nil {
				c.Violation("C13|nil-value|LookupByString", "%s.LookupByString(%q) returned (nil, nil)", how, k)
			}
		})
		op("LookupBySegment", func() { n.LookupBySegment(datamodel.PathSegmentOfString(k)) })
		op("LookupByNode", func() { n.LookupByNode(basicnode.NewString(k)) })
		if nl, ok := n.(nativeLookup); ok {
			op("native.Lookup", func() { nl.Lookup(pbString(k)) })
		}
	}
	op("LookupByNode(int)", func() { n.LookupByNode(basicnode.NewInt(3)) })
	for _, i := range []int64{0, 1, -1, 1 << 40} {
		i := i
		op("LookupByIndex", func() { n.LookupByIndex(i) })
	}
	if !exponential {
		op("MapIterator", func() {
			it := n.MapIterator()
			if it == nil {
				if n.Kind() == datamodel.Kind_Map {
					c.Violation("C13|nil-iterator", "%s: MapIterator() is nil on a map-kind node", how)
				}
				return
			}
			steps := 0
			for !it.Done() {
				steps++
				if steps > nextBudget {
					c.Violation("C13|unbounded-iteration|MapIterator", "%s: MapIterator did not finish within %d Next calls (DAG has %d links over %d paths)", how, nextBudget, links, paths)
					return
				}
				k, v, err := it.Next()
				if err == nil {
					if k == nil || v == nil {
						c.Violation("C13|nil-value|MapIterator", "%s: MapIterator.Next returned a nil key or value without error", how)
						return
					}
					k.AsString()
					v.AsLink()
					v.Kind()
				}
			}
			it.Done()
			it.Next() // over-read must be an error or a value, not a panic
		})
	}
	type nativeIterable interface{ Iterator() *iterT }
	if ni, ok := n.(nativeIterable); ok && !exponential {
		op("native.Iterator", func() {
			it := ni.Iterator()
			steps := 0
			for !it.Done() {
				steps++
				if steps > nextBudget {
					c.Violation("C13|unbounded-iteration|native.Iterator", "%s: native iterator did not finish within %d Next calls", how, nextBudget)
					return
				}
				k, _ := it.Next()
				if k != nil {
					_ = k.String()
				}
			}
			it.Next()
		})
	}
	op("ListIterator", func() {
		if it := n.ListIterator(); it != nil {
			for i := 0; !it.Done() && i < nextBudget; i++ {
				it.Next()
			}
		}
	})
	if !exponential {
		op("AsBytes", func() {
			b, err := n.AsBytes()
			if err == nil && int64(len(b)) > payload+64 {
				c.Violation("C13|oversized-bytes", "%s.AsBytes returned %d bytes from a DAG holding %d payload bytes over all paths", how, len(b), payload)
			}
		})
	}
	op("AsOther", func() { n.AsBool(); n.AsInt(); n.AsFloat(); n.AsString(); n.AsLink() })
	op("Representation", func() {
		if tn, ok := n.(interface{ Representation() ipld.Node }); ok {
			tn.Representation()
		}
		n.Prototype()
	})
	op("Substrate", func() {
		if a, ok := n.(interface{ Substrate() ipld.Node }); ok {
			if s := a.Substrate(); s != nil {
				s.Kind()
			}
		}
	})
	// (reading a DAG whose sharing makes the path count astronomical is legitimately that expensive)
	if lb, ok := n.(largeBytes); ok && !exponential {
		steps := []struct {
			name string
			f    func(rs io.ReadSeeker)
		}{
			{"Read", func(rs io.ReadSeeker) { rs.Read(make([]byte, 7)) }},
			{"Seek(-5,Start)+Read", func(rs io.ReadSeeker) { rs.Seek(-5, io.SeekStart); rs.Read(make([]byte, 4)) }},
			{"Seek(-1,Current)+Read", func(rs io.ReadSeeker) {
				rs.Read(make([]byte, 1))
				rs.Seek(-3, io.SeekCurrent)
				rs.Read(make([]byte, 4))
			}},
			{"Seek(0,End)+Read", func(rs io.ReadSeeker) { rs.Seek(0, io.SeekEnd); rs.Read(make([]byte, 4)) }},
			{"Seek(-2,End)+Read", func(rs io.ReadSeeker) { rs.Seek(-2, io.SeekEnd); rs.Read(make([]byte, 4)) }},
			{"Seek(-1<<40,End)+Read", func(rs io.ReadSeeker) { rs.Seek(-(1 << 40), io.SeekEnd); rs.Read(make([]byte, 4)) }},
			{"Seek(1<<40,Start)+Read", func(rs io.ReadSeeker) { rs.Seek(1<<40, io.SeekStart); rs.Read(make([]byte, 4)) }},
			{"Seek(3,Start)+Read", func(rs io.ReadSeeker) { rs.Seek(3, io.SeekStart); rs.Read(make([]byte, 9)) }},
			{"Seek(5,Start)+Seek(past)+Read", func(rs io.ReadSeeker) {
				rs.Seek(5, io.SeekStart)
				rs.Seek(50, io.SeekCurrent)
				rs.Read(make([]byte, 2))
			}},
			{"Seek(whence=7)", func(rs io.ReadSeeker) { rs.Seek(1, 7); rs.Read(make([]byte, 2)) }},
			{"int64-extreme seeks", func(rs io.ReadSeeker) {
				// positions that overflow int64 when added to a non-zero base, each followed by reads
				buf := make([]byte, 3)
				rs.Read(buf)
				for _, sk := range []struct {
					off    int64
					whence int
				}{{math.MaxInt64, io.SeekCurrent}, {math.MaxInt64, io.SeekEnd}, {math.MaxInt64, io.SeekStart}, {1, io.SeekCurrent}, {math.MinInt64, io.SeekCurrent}, {math.MinInt64, io.SeekEnd}, {math.MinInt64 + 1, io.SeekStart}, {math.MaxInt64 - 2, io.SeekCurrent}} {
					rs.Seek(sk.off, sk.whence)
					rs.Read(buf)
					rs.Seek(0, io.SeekCurrent)
				}
			}},
			{"Read(0)", func(rs io.ReadSeeker) { rs.Read(nil) }},
			{"ReadAll", func(rs io.ReadSeeker) {
				total := int64(0)
				buf := make([]byte, 64)
				for i := 0; i < int(payload/1)+64; i++ {
					k, err := rs.Read(buf)
					total += int64(k)
					if err != nil {
						break
					}
				}
				if total > payload+64 {
					c.Violation("C13|oversized-bytes", "%s: reader produced %d bytes from a DAG holding %d payload bytes", how, total, payload)
				}
			}},
			{"read-again-after-error", func(rs io.ReadSeeker) {
				// keep using the same reader whatever it returned before
				buf := make([]byte, 3)
				for i := 0; i < 4; i++ {
					rs.Read(buf)
				}
				rs.Seek(2, io.SeekCurrent)
				rs.Read(buf)
				rs.Seek(0, io.SeekEnd)
				rs.Read(buf)
				rs.Read(buf)
			}},
			{"interleaved", func(rs io.ReadSeeker) {
				rs.Read(make([]byte, 2))
				rs.Seek(1, io.SeekStart)
				rs.Read(make([]byte, 3))
				rs.Seek(-1, io.SeekEnd)
				rs.Read(make([]byte, 3))
				rs.Seek(0, io.SeekCurrent)
			}},
		}
		for _, s := range steps {
			s := s
			op("reader."+s.name, func() {
				rs, err := lb.AsLargeBytes()
				if err != nil || rs == nil {
					return
				}
				s.f(rs)
			})
		}
	}
}

func hostileKeys(st *store.Store, root cid.Cid, r *rand.Rand) []string {
	keys := []string{"", "a", "0", "00", "000", "dup", "zz", "00name" + "a"}
	if n, err := walkerFor(st).Node(root); err == nil {
		for i, l := range n.Links {
			if i > 6 {
				break
			}
			if l.HasName {
				keys = append(keys, l.Name)
				for _, p := range []int{1, 2, 3} {
					if len(l.Name) > p {
						keys = append(keys, l.Name[p:])
					}
				}
			}
		}
	}
	for i := 0; i < 6; i++ {
		keys = append(keys, fmt.Sprintf("k%d", r.Intn(1000)))
	}
	return keys
}

func exerciseDAG(c *mon.Case, st *store.Store, root cid.Cid, class string) {
	paths, links, payload := dagMeasure(st, root)
	c.Count("dags", 1)
	c.Max("max_paths", int64(paths))
	ls := st.LinkSystem(true)
	var raw ipld.Node
	var err error
	if !c.Guard("Load", func() { raw, err = loadRaw(ls, root) }) || err != nil {
		return
	}
	keys := hostileKeys(st, root, c.Rand())
	reifiers := []struct {
		name string
		f    func() (ipld.Node, error)
	}{
		{"Reify", func() (ipld.Node, error) { return reify(ls, raw) }},
		{"unixfs", func() (ipld.Node, error) { return ls.KnownReifiers["unixfs"](ipld.LinkContext{Ctx: bg}, raw, ls) }},
		// the zero LinkContext (no context at all), which go-ipld-prime accepts
		{"Reify(zero LinkContext)", func() (ipld.Node, error) { return unixfsnode.Reify(ipld.LinkContext{}, raw, ls) }},
		{"unixfs-preload", func() (ipld.Node, error) {
			return ls.KnownReifiers["unixfs-preload"](ipld.LinkContext{Ctx: bg}, raw, ls)
		}},
		// the exported constructors called directly, on whatever the block decodes to
		{"file.NewUnixFSFile", func() (ipld.Node, error) {
			n, err := file.NewUnixFSFile(bg, raw, ls)
			if n == nil {
				return nil, err
			}
			return n, err
		}},
		{"file.NewUnixFSFileWithPreload", func() (ipld.Node, error) {
			n, err := file.NewUnixFSFileWithPreload(bg, raw, ls)
			if n == nil {
				return nil, err
			}
			return n, err
		}},
		{"hamt.AttemptHAMTShardFromNode", func() (ipld.Node, error) {
			n, err := hamt.AttemptHAMTShardFromNode(bg, raw, ls)
			if n == nil {
				return nil, err
			}
			return n, err
		}},
	}
	for _, rf := range reifiers {
		if paths > 20000 && strings.HasPrefix(rf.name, "file.") {
			continue // reading such a DAG as a file is legitimately as expensive as its path count
		}
		var n ipld.Node
		var rerr error
		st.ResetLog()
		st.LoadBudget = 64*(min(paths, 1<<20)+min(links, 1<<20)+4) + 200
		c.Count("operations", 1)
		var events int64
		exceeded := false
		hookBudget := int64(64*(st.Len()+min(paths, 20000)) + 256)
		hook := func(string) {
			if atomic.AddInt64(&events, 1) > hookBudget {
				panic(hookBudgetExceeded{})
			}
		}
		hamt.SetVerifHook(hook)
		file.SetVerifHook(hook)
		ok := c.Guard(rf.name, func() {
			defer func() {
				if p := recover(); p != nil {
					if _, isB := p.(hookBudgetExceeded); isB {
						exceeded = true
						return
					}
					panic(p)
				}
			}()
			n, rerr = rf.f()
		})
		hamt.SetVerifHook(nil)
		file.SetVerifHook(nil)
		if exceeded {
			c.Violation("C13|unbounded-work|reify", "%s passed the memoisation sites more than %d times for a DAG of %d blocks: work is not proportional to the data", rf.name, hookBudget, st.Len())
			continue
		}
		if st.BudgetExceeded {
			c.Violation("C13|unbounded-loads|reify", "%s requested more than %d blocks for a DAG with %d paths", rf.name, st.LoadBudget, paths)
		}
		st.LoadBudget = 0
		c.Sig(class+"|"+rf.name, true)
		if !ok {
			continue
		}
		if rerr != nil {
			c.Count("reify_errors", 1)
			if n == nil {
				continue
			}
		} else if n == nil {
			c.Violation("C13|nil-value|reify", "%s returned (nil, nil)", rf.name)
			continue
		}
		if strings.Contains(rf.name, ".") && rerr != nil {
			continue // a constructor that reports an error owes nothing about the value it returns with it
		}
		if n == raw {
			// not dag-pb: reification hands the node back untouched; its
			// operations are go-ipld-prime's, not this library's
			c.Count("passthrough_nodes", 1)
			continue
		}
		c.Count("reified_values", 1)
		exerciseNode(c, st, rf.name, n, keys, paths, links, payload)
	}
}

// useError does with a returned error what callers do with errors: asks for its text (directly, not
// through fmt, which would swallow a panic inside Error) and unwraps it.
func useError(err error) {
	for i := 0; err != nil && i < 8; i++ {
		_ = err.Error()
		err = errors.Unwrap(err)
	}
}

func TestC13(t *testing.T) {
	r := mon.Start(t, "C13")
	defer r.Close()
	// ---- (1) decoders ----
	nb := r.Pick(100, 4000)
	for b := 0; b < nb; b++ {
		b := b
		r.Case(fmt.Sprintf("decoders/%d", b), map[string]any{"batch": b, "inputs": 500}, func(c *mon.Case) {
			rr := c.Rand()
			var last []byte
			for i := 0; i < 500; i++ {
				var in []byte
				class := ""
				switch rr.Intn(6) {
				case 0:
					in = make([]byte, rr.Intn(40))
					rr.Read(in)
					class = "random"
				case 5:
					// a known field number carrying one of the wire types protobuf never defined (6, 7),
					// alone or behind a well-formed prefix
					m := msgFor(uint64(rr.Intn(6)), rr.Intn(4), rr.Intn(40))
					in = gen.Encode(rr, m, gen.Pres{Kind: "ordered"})
					if rr.Intn(2) == 0 {
						in = nil
					}
					in = append(in, byte((1+rr.Intn(8))<<3|6+rr.Intn(2)), byte(rr.Intn(256)), byte(rr.Intn(256)))
					class = "undefined-wire-type"
				default:
					m := msgFor(uint64(rr.Intn(6)), rr.Intn(128), rr.Intn(40))
					in = gen.Encode(rr, m, gen.Pres{Kind: "permuted", Packed: rr.Intn(2) == 0, Unknown: rr.Intn(3), NonMinimal: rr.Intn(2) == 0})
					switch rr.Intn(4) {
					case 0:
						if len(in) > 0 {
							in = in[:rr.Intn(len(in))]
						}
						class = "truncated"
					case 1:
						for k := 0; k < 1+rr.Intn(3) && len(in) > 0; k++ {
							in[rr.Intn(len(in))] ^= 1 << uint(rr.Intn(8))
						}
						class = "bitflip"
					case 2:
						if len(last) > 0 && len(in) > 0 {
							in = append(in[:rr.Intn(len(in))], last[rr.Intn(len(last)):]...)
						}
						class = "splice"
					default:
						if len(in) > 0 {
							p := rr.Intn(len(in))
							in = append(in[:p], append([]byte{0xff, 0xff, 0xff, 0xff, 0xff, 0xff, 0xff, 0xff, 0xff, 0x7f}, in[p:]...)...)
						}
						class = "huge-varint"
					}
				}
				last = in
				c.Count("decoder_inputs", 1)
				for _, d := range []struct {
					name string
					f    func()
				}{
					{"DecodeUnixFSData", func() {
						n, err := data.DecodeUnixFSData(in)
						useError(err)
						if err == nil {
							if n == nil {
								c.Violation("C13|nil-value|DecodeUnixFSData", "(nil, nil) for %x", in)
								return
							}
							n.Permissions()
							data.EncodeUnixFSData(n)
						}
					}},
					{"DecodeUnixTime", func() {
						n, err := data.DecodeUnixTime(in)
						useError(err)
						if err == nil && n != nil {
							data.AppendEncodeUnixTime(nil, n)
						}
					}},
					{"DecodeUnixFSMetadata", func() {
						n, err := data.DecodeUnixFSMetadata(in)
						useError(err)
						if err == nil && n != nil {
							data.EncodeUnixFSMetadata(n)
						}
					}},
				} {
					c.Count("operations", 1)
					if !c.Guard(fmt.Sprintf("%s(%x)", d.name, in), d.f) {
						c.Sample(map[string]any{"panicking_input": fmt.Sprintf("%x", in)})
					}
					c.Sig(class+"|"+d.name, len(in) > 0)
				}
			}
		})
	}
	// ---- (2) directly constructed hostile DAGs ----
	nd := r.Pick(400, 20000)
	for b := 0; b < nd; b++ {
		b := b
		r.Case(fmt.Sprintf("constructed/%d", b), map[string]any{"batch": b, "dags": 12, "max_depth": 4}, func(c *mon.Case) {
			for i := 0; i < 12; i++ {
				st := store.New()
				h := &hostile{st: st, r: c.Rand(), classes: map[string]bool{}}
				root := h.node(1 + c.Rand().Intn(4))
				cl := make([]string, 0, len(h.classes))
				for k := range h.classes {
					cl = append(cl, k)
				}
				exerciseDAG(c, st, root, "constructed")
				for _, k := range cl {
					c.Sig("class|"+strings.Split(k, "+")[0], true)
				}
			}
		})
	}
	// ---- (2b) stacked shards: every level links (many times) to the same child, deeper than the hash has bits ----
	for _, f := range allFanouts {
		for _, variant := range []string{"full-empty-bottom", "full-value-bottom", "two-links", "chain"} {
			f, variant := f, variant
			r.Case(fmt.Sprintf("stacked/f%d/%s", f, variant), map[string]any{"fanout": f, "variant": variant}, func(c *mon.Case) {
				lg := bits.TrailingZeros(uint(f))
				usable := 64 / lg
				pad := oracle.PadLen(uint64(f))
				for _, levels := range []int{2, usable - 1, usable, usable + 1, usable + 3} {
					if variant == "full-empty-bottom" && levels > 6 {
						levels = 6 // enough for fanout^levels to dwarf any budget
					}
					st := store.New()
					t5 := pb.Data_HAMTShard
					mkShard := func(bitfield []byte, links []pbLinkSpec) cid.Cid {
						m := &pb.Data{Type: &t5, HashType: proto.Uint64(0x22), Fanout: proto.Uint64(uint64(f)), Data: bitfield}
						return st.PutBlock(1, cid.DagProtobuf, encodePB(mustMarshal(m), true, links))
					}
					ones := bytes.Repeat([]byte{0xff}, f/8)
					// bottom
					var cur cid.Cid
					leaf := st.PutBlock(1, cid.Raw, []byte("value"))
					switch variant {
					case "full-empty-bottom":
						cur = mkShard(nil, nil)
					default:
						var ls []pbLinkSpec
						for i := 0; i < f; i++ {
							ls = append(ls, pbLinkSpec{Name: strp(fmt.Sprintf("%0*Xentry%d", pad, i, i)), Tsize: u64p(5), Cid: leaf})
						}
						cur = mkShard(ones, ls)
					}
					for l := 1; l < levels; l++ {
						var ls []pbLinkSpec
						bf := ones
						switch variant {
						case "two-links":
							bf = make([]byte, f/8)
							bf[len(bf)-1] = 0x03
							ls = []pbLinkSpec{{Name: strp(fmt.Sprintf("%0*X", pad, 0)), Cid: cur, Tsize: u64p(1)}, {Name: strp(fmt.Sprintf("%0*X", pad, 1)), Cid: cur, Tsize: u64p(1)}}
						case "chain":
							bf = make([]byte, f/8)
							bf[len(bf)-1] = 0x01
							ls = []pbLinkSpec{{Name: strp(fmt.Sprintf("%0*X", pad, 0)), Cid: cur, Tsize: u64p(1)}}
						default:
							for i := 0; i < f; i++ {
								ls = append(ls, pbLinkSpec{Name: strp(fmt.Sprintf("%0*X", pad, i)), Cid: cur, Tsize: u64p(1)})
							}
						}
						cur = mkShard(bf, ls)
					}
					exerciseDAG(c, st, cur, "stacked|"+variant)
					// keys whose hash walks slot 0 (or 0/1) at every level, so that lookups reach the bottom
					ls := st.LinkSystem(true)
					if raw, err := loadRaw(ls, cur); err == nil {
						if n, err := reify(ls, raw); err == nil && n != nil {
							var keys []string
							for k := 0; k < 6; k++ {
								keys = append(keys, gen.Craft16(uint64(k)&1<<uint(63-k*lg%60), c.Rand().Uint64()), gen.Craft16(0, c.Rand().Uint64()), gen.Craft16(c.Rand().Uint64()>>uint(lg*(levels%usable+1)%63), c.Rand().Uint64()))
							}
							paths, links, payload := dagMeasure(st, cur)
							exerciseNode(c, st, "stacked-crafted-keys", n, keys, paths, links, payload)
						}
					}
					c.Sig(fmt.Sprintf("stacked|f%d|%s|levels%d", f, variant, levels), true)
				}
			})
		}
	}
	// ---- (2b') file nodes with thousands of links to one small dag-pb child and a long Data payload that
	// fails to decode only at its very end: whatever is examined per link must not be re-done per link ----
	for _, nl := range []int{r.Pick(3000, 20000)} {
		nl := nl
		r.Case(fmt.Sprintf("wide-file-undecodable-data/%d", nl), map[string]any{"links": nl}, func(c *mon.Case) {
			st := store.New()
			ft := pb.Data_File
			child := st.PutBlock(1, cid.DagProtobuf, encodePB(mustMarshal(&pb.Data{Type: &ft, Data: []byte("x"), Filesize: proto.Uint64(1)}), true, nil))
			// a valid message followed by a field cut short
			good := mustMarshal(&pb.Data{Type: &ft, Filesize: proto.Uint64(uint64(nl)), Blocksizes: make([]uint64, 2000)})
			bad := append(append([]byte(nil), good...), 0x38, 0xff)
			for vi, d := range [][]byte{bad, good} {
				links := make([]pbLinkSpec, nl)
				for i := range links {
					links[i] = pbLinkSpec{Name: strp(""), Tsize: u64p(3), Cid: child}
				}
				root := st.PutBlock(1, cid.DagProtobuf, encodePB(d, true, links))
				exerciseDAG(c, st, root, fmt.Sprintf("wide-file-data%d", vi))
				// the direct constructor over a substrate that counts how often its Data field is asked
				// for: a node's metadata is examined a fixed number of times, not once per link
				ls := st.LinkSystem(true)
				raw, err := loadRaw(ls, root)
				if err != nil {
					continue
				}
				var asked int64
				c.Guard("NewUnixFSFile over a counting substrate", func() {
					n, err := file.NewUnixFSFile(bg, countingNode{Node: raw, data: &asked}, ls)
					if err != nil || n == nil {
						return
					}
					lb, ok := n.(largeBytes)
					if !ok {
						return
					}
					for rep := 0; rep < 3; rep++ {
						rs, err := lb.AsLargeBytes()
						if err != nil {
							return
						}
						rs.Seek(0, io.SeekEnd)
						rs.Seek(int64(nl/2), io.SeekStart)
						rs.Read(make([]byte, 5))
					}
				})
				c.Count("operations", 1)
				c.Max("max_data_field_lookups_per_node", atomic.LoadInt64(&asked))
				if asked > 32 {
					c.Violation("C13|unbounded-work|metadata-per-link", "a file node with %d links and %d bytes of Data had its Data field looked up %d times during three seek/read rounds: the work grows with links x payload", nl, len(d), asked)
				}
			}
			c.Sig("wide-file-undecodable-data", true)
		})
	}
	// ---- (2c) child shards whose fanout differs from the parent's, short entry names, several links to one child ----
	for _, pf := range []int{1024, 512, 256, 16} {
		for _, cf := range []int{8, 16, 256, 1024} {
			if pf == cf {
				continue
			}
			pf, cf := pf, cf
			r.Case(fmt.Sprintf("mismatch/p%d/c%d", pf, cf), map[string]any{"parent_fanout": pf, "child_fanout": cf}, func(c *mon.Case) {
				st := store.New()
				t5 := pb.Data_HAMTShard
				mk := func(f int, bf []byte, links []pbLinkSpec) cid.Cid {
					m := &pb.Data{Type: &t5, HashType: proto.Uint64(0x22), Fanout: proto.Uint64(uint64(f)), Data: bf}
					return st.PutBlock(1, cid.DagProtobuf, encodePB(mustMarshal(m), true, links))
				}
				leaf := st.PutBlock(1, cid.Raw, []byte("v"))
				cpad, ppad := oracle.PadLen(uint64(cf)), oracle.PadLen(uint64(pf))
				var cl []pbLinkSpec
				for i, nm := range []string{"a", "bc", "", "longer-name"} {
					cl = append(cl, pbLinkSpec{Name: strp(fmt.Sprintf("%0*X%s", cpad, i, nm)), Tsize: u64p(1), Cid: leaf})
				}
				child := mk(cf, []byte{0x0f}, cl)
				var pl []pbLinkSpec
				for i := 0; i < 3; i++ {
					pl = append(pl, pbLinkSpec{Name: strp(fmt.Sprintf("%0*X", ppad, i)), Tsize: u64p(9), Cid: child})
				}
				pl = append(pl, pbLinkSpec{Name: strp(fmt.Sprintf("%0*Xvalue", ppad, 3)), Tsize: u64p(1), Cid: leaf})
				root := mk(pf, []byte{0x0f}, pl)
				// every operation runs on the same reified nodes, several times over
				exerciseDAG(c, st, root, "mismatched-fanout")
				ls := st.LinkSystem(true)
				if raw, err := loadRaw(ls, root); err == nil {
					if n, err := reify(ls, raw); err == nil && n != nil {
						paths, links, payload := dagMeasure(st, root)
						for rep := 0; rep < 3; rep++ {
							exerciseNode(c, st, fmt.Sprintf("mismatched-fanout-pass%d", rep), n, []string{"a", "bc", "", "value", "0a"}, paths, links, payload)
						}
					}
				}
				c.Sig(fmt.Sprintf("mismatch|p%d|c%d", pf, cf), true)
			})
		}
	}
	// ---- (3) well-formed DAGs with one or two corruptions ----
	nm := r.Pick(400, 20000)
	for b := 0; b < nm; b++ {
		b := b
		r.Case(fmt.Sprintf("mutated/%d", b), map[string]any{"batch": b, "dags": 10}, func(c *mon.Case) {
			rr := c.Rand()
			for i := 0; i < 10; i++ {
				st := store.New()
				var root cid.Cid
				kind := rr.Intn(4)
				switch kind {
				case 0, 1: // sharded directory
					f := []int{8, 8, 16, 32, 256, 1024}[rr.Intn(6)]
					n := 2 + rr.Intn(60)
					var names []string
					if rr.Intn(3) == 0 {
						names = gen.SharedPrefixNames(rr, 2+rr.Intn(3), (1+rr.Intn(4))*3)
					} else {
						names = gen.Names(rr, gen.FamASCII, n)
					}
					entries, _, _ := childEntries(st, names)
					l, _, err := builder.BuildUnixFSShardedDirectory(f, multihash.MURMUR3X64_64, entries, st.LinkSystem(false))
					if err != nil {
						continue
					}
					root = linkCid(l)
				case 2: // file
					content := gen.Content(rr, "rand", rr.Intn(60))
					var l ipld.Link
					withWidth(2+rr.Intn(2), func() {
						l, _, _ = builder.BuildUnixFSFile(bytes.NewReader(content), fmt.Sprintf("size-%d", 1+rr.Intn(5)), st.LinkSystem(false))
					})
					root = linkCid(l)
					if rr.Intn(2) == 0 {
						root, _, _ = oracle.RefImport(st, bytes.NewReader(content), "size-4", 2, refModes[refModeNames[rr.Intn(len(refModeNames))]])
					}
				default: // hand-made file or plain dir
					if rr.Intn(2) == 0 {
						content := gen.Content(rr, "rand", 1+rr.Intn(50))
						hv := handVariants()
						root, _ = handFile(st, splitChunks(content, 1+rr.Intn(6)), hv[rr.Intn(len(hv))])
					} else {
						entries, _, _ := childEntries(st, gen.Names(rr, gen.FamMixed, 1+rr.Intn(8)))
						l, _, _ := builder.BuildUnixFSDirectory(entries, st.LinkSystem(false))
						root = linkCid(l)
					}
				}
				if !root.Defined() {
					continue
				}
				class := ""
				for k := 0; k < 1+rr.Intn(2); k++ {
					var cl string
					root, cl = mutateWellFormed(st, rr, root)
					class += cl + "+"
				}
				exerciseDAG(c, st, root, "mutated|"+[]string{"hamt", "hamt", "file", "other"}[kind])
				c.Sig("mutation|"+class, true)
			}
		})
	}
}

var _ = cidlink.Link{}
