package props

import (
	"bytes"
	"fmt"
	"math"
	"sync"
	"sync/atomic"
	"testing"
	"time"

	"github.com/gogo/protobuf/proto"
	pb "github.com/ipfs/boxo/ipld/unixfs/pb"
	"github.com/ipfs/go-unixfsnode/data"
	"github.com/ipfs/go-unixfsnode/data/builder"

	"verifharness/gen"
	"verifharness/mon"
)

var c09Vals = []uint64{0, 1, 127, 128, 300, 1 << 31, 1<<32 - 1, 1 << 32, 1 << 63, ^uint64(0)}
var c09Modes = []uint32{0, 1, 0o644, 0o755, 0o600, 0o1777, 0o4755, 0o2755, 0o7777, 0o100644, 0o40755, 1 << 31, 1<<32 - 1}
var c09Secs = []int64{0, 1, -1, 1700000000, -62135596800, 1 << 40, -(1 << 62), 1<<63 - 1, -1 << 63}
var c09Nanos = []uint32{0, 1, 999999999, 123456789, 1 << 31, 1<<32 - 1, 1000000000}

func defaultPerm(t uint64) (int, bool) {
	switch t {
	case 2:
		return 0o644, true
	case 1, 5:
		return 0o755, true
	}
	return 0, false
}

// compareDecoded compares the library's decode with gogo's, field by field.
func compareDecoded(d data.UnixFSData, m *pb.Data) string {
	if uint64(d.FieldDataType().Int()) != uint64(m.GetType()) {
		return fmt.Sprintf("type %d vs %d", d.FieldDataType().Int(), m.GetType())
	}
	if d.FieldData().Exists() != (m.Data != nil) {
		return fmt.Sprintf("Data presence %v vs %v", d.FieldData().Exists(), m.Data != nil)
	}
	if m.Data != nil && !bytes.Equal(d.FieldData().Must().Bytes(), m.Data) {
		return "Data bytes differ"
	}
	if d.FieldFileSize().Exists() != (m.Filesize != nil) || (m.Filesize != nil && uint64(d.FieldFileSize().Must().Int()) != *m.Filesize) {
		return fmt.Sprintf("filesize differs (present %v vs %v)", d.FieldFileSize().Exists(), m.Filesize != nil)
	}
	if int(d.FieldBlockSizes().Length()) != len(m.Blocksizes) {
		return fmt.Sprintf("%d blocksizes vs %d", d.FieldBlockSizes().Length(), len(m.Blocksizes))
	}
	it := d.FieldBlockSizes().Iterator()
	for i := 0; !it.Done(); i++ {
		_, v := it.Next()
		if uint64(v.Int()) != m.Blocksizes[i] {
			return fmt.Sprintf("blocksizes[%d] = %d vs %d", i, uint64(v.Int()), m.Blocksizes[i])
		}
	}
	if d.FieldHashType().Exists() != (m.HashType != nil) || (m.HashType != nil && uint64(d.FieldHashType().Must().Int()) != *m.HashType) {
		return "hashType differs"
	}
	if d.FieldFanout().Exists() != (m.Fanout != nil) || (m.Fanout != nil && uint64(d.FieldFanout().Must().Int()) != *m.Fanout) {
		return "fanout differs"
	}
	if d.FieldMode().Exists() != (m.Mode != nil) || (m.Mode != nil && d.FieldMode().Must().Int() != int64(*m.Mode)) {
		return fmt.Sprintf("mode differs (present %v vs %v)", d.FieldMode().Exists(), m.Mode != nil)
	}
	if d.FieldMtime().Exists() != (m.Mtime != nil) {
		return "mtime presence differs"
	}
	if m.Mtime != nil {
		t := d.FieldMtime().Must()
		if t.FieldSeconds().Int() != m.Mtime.GetSeconds() {
			return fmt.Sprintf("mtime seconds %d vs %d", t.FieldSeconds().Int(), m.Mtime.GetSeconds())
		}
		if t.FieldFractionalNanoseconds().Exists() != (m.Mtime.Nanos != nil) || (m.Mtime.Nanos != nil && t.FieldFractionalNanoseconds().Must().Int() != int64(*m.Mtime.Nanos)) {
			return "mtime nanos differ"
		}
	}
	return ""
}

func toPB(m gen.Msg) *pb.Data {
	t := pb.Data_DataType(m.Type)
	out := &pb.Data{Type: &t, Filesize: m.FileSize, Blocksizes: m.BlockSizes, HashType: m.HashType, Fanout: m.Fanout, Mode: m.Mode}
	if m.HasData {
		out.Data = m.Data
		if out.Data == nil {
			out.Data = []byte{}
		}
	}
	if m.Mtime != nil {
		s := m.Mtime.Seconds
		out.Mtime = &pb.IPFSTimestamp{Seconds: &s, Nanos: m.Mtime.Nanos}
	}
	return out
}

func msgFor(typ uint64, mask int, vi int) gen.Msg {
	m := gen.Msg{Type: typ}
	v := func(k int) uint64 { return c09Vals[(vi+k)%len(c09Vals)] }
	if mask&1 != 0 {
		m.HasData = true
		m.Data = [][]byte{{}, {1}, []byte("hello"), bytes.Repeat([]byte{0xff}, 130), bytes.Repeat([]byte{7}, 1000+(vi+mask)%18), {2}}[(vi+mask/16)%6]
	}
	if mask&2 != 0 {
		m.FileSize = gen.U64(v(1))
	}
	if mask&4 != 0 {
		n := []int{1, 3, 100, 2, 1025, 1, 5000, 4}[(vi+mask/8)%8]
		for i := 0; i < n; i++ {
			m.BlockSizes = append(m.BlockSizes, v(i))
		}
	}
	if mask&8 != 0 {
		m.HashType = gen.U64(v(2))
	}
	if mask&16 != 0 {
		m.Fanout = gen.U64(v(3))
	}
	if mask&32 != 0 {
		m.Mode = gen.U32(c09Modes[(vi+mask)%len(c09Modes)])
	}
	if mask&64 != 0 {
		t := &gen.Time{Seconds: c09Secs[(vi+mask)%len(c09Secs)]}
		if (vi+mask)%3 != 0 {
			t.Nanos = gen.U32(c09Nanos[(vi+mask/3)%len(c09Nanos)])
		}
		m.Mtime = t
	}
	return m
}

func valueClass(vi int) string { return fmt.Sprintf("v%d", vi%len(c09Vals)) }

// decodeFromScratch decodes a private copy of raw and then overwrites that copy.
// It is used for the messages without bytes fields (timestamps; metadata, whose
// only field is a string, and Go strings are immutable): what was decoded there
// is a value of its own. The Data message's bytes field may legitimately be a
// view of the input, as with every go-ipld-prime codec.
func decodeFromScratch[T any](raw []byte, dec func([]byte) (T, error)) (T, error) {
	buf := append(make([]byte, 0, len(raw)+8), raw...)
	v, err := dec(buf)
	for i := range buf {
		buf[i] ^= 0xff
	}
	return v, err
}

func TestC09(t *testing.T) {
	r := mon.Start(t, "C09")
	defer r.Close()
	pres := []gen.Pres{
		{Kind: "ordered"},
		{Kind: "reversed"},
		{Kind: "permuted"},
		{Kind: "ordered", Packed: true},
		{Kind: "permuted", Packed: true},
		{Kind: "permuted", Interleave: true},
		{Kind: "permuted", Unknown: 3, UnknownInT: true},
		{Kind: "permuted", Packed: true, Unknown: 2},
		{Kind: "ordered", NonMinimal: true},
		{Kind: "permuted", Packed: true, NonMinimal: true, Unknown: 1, UnknownInT: true},
		{Kind: "permuted", Packed: true, EmptyRun: true},
		{Kind: "ordered", Packed: true, EmptyRun: true, NonMinimal: true},
	}
	nvi := r.Pick(len(c09Vals), len(c09Vals)*4)
	perms := r.Pick(2, 12)
	for typ := uint64(0); typ < 6; typ++ {
		for vi := 0; vi < nvi; vi++ {
			typ, vi := typ, vi
			r.Case(fmt.Sprintf("decode/type%d/v%d", typ, vi), map[string]any{"type": typ, "value_vector": vi, "masks": "0..127", "presentations": len(pres), "permutations": perms}, func(c *mon.Case) {
				rr := c.Rand()
				for mask := 0; mask < 128; mask++ {
					m := msgFor(typ, mask, vi+int(r.Seed%7))
					ref := toPB(m)
					canon, err := proto.Marshal(ref)
					if err != nil {
						c.Harness("gogo cannot marshal the logical message: %v", err)
						return
					}
					fields := 0
					for b := mask; b > 0; b >>= 1 {
						fields += b & 1
					}
					for _, p := range pres {
						for k := 0; k < perms; k++ {
							if k > 0 && p.Kind != "permuted" {
								break
							}
							raw := gen.Encode(rr, m, p)
							var g pb.Data
							if gerr := proto.Unmarshal(raw, &g); gerr != nil {
								c.Harness("reference decoder rejects a generated presentation %x: %v", raw, gerr)
								continue
							}
							var d data.UnixFSData
							var derr error
							if !c.Guard("DecodeUnixFSData", func() { d, derr = data.DecodeUnixFSData(raw) }) {
								continue
							}
							c.Count("decodes_compared", 1)
							if p.Packed && len(m.BlockSizes) > 0 {
								c.Count("packed_presentations", 1)
							}
							if p.Unknown > 0 {
								c.Count("unknown_field_presentations", 1)
							}
							if p.NonMinimal {
								c.Count("nonminimal_presentations", 1)
							}
							pk := "unpacked"
							if p.Packed && len(m.BlockSizes) > 0 {
								pk = "packed"
							}
							if derr != nil {
								c.Violation("C09|decode-rejected|"+pk, "presentation %s of type %d mask %07b rejected: %v (bytes %x)", p.Class(), typ, mask, derr, raw)
								continue
							}
							if diff := compareDecoded(d, &g); diff != "" {
								c.Violation("C09|decode-differs|"+pk, "presentation %s of type %d mask %07b: %s (bytes %x)", p.Class(), typ, mask, diff, raw)
								continue
							}
							// permissions
							wantPerm, judged := 0, true
							if m.Mode != nil {
								wantPerm = int(*m.Mode & 0o7777)
							} else if dp, ok := defaultPerm(typ); ok {
								wantPerm = dp
							} else {
								judged = false
							}
							var perm int
							c.Guard("Permissions", func() { perm = d.Permissions() })
							if judged && perm != wantPerm {
								c.Violation("C09|permissions", "type %d mode %v: Permissions() = %#o, want %#o", typ, modeStr(m.Mode), perm, wantPerm)
							}
							// encode what was decoded; the reference must read the same logical message
							var enc []byte
							if !c.Guard("EncodeUnixFSData", func() { enc = data.EncodeUnixFSData(d) }) {
								continue
							}
							// the Append form must append to what is already there, whatever the spare capacity
							if k == 0 {
								prefix := append(make([]byte, 0, 7+mask%60), 0xde, 0xad, 0xbe)
								var app []byte
								c.Guard("AppendEncodeUnixFSData", func() { app = data.AppendEncodeUnixFSData(prefix, d) })
								if len(app) < 3 || !bytes.Equal(app[:3], []byte{0xde, 0xad, 0xbe}) || !bytes.Equal(app[3:], enc) {
									c.Violation("C09|append-encode", "AppendEncodeUnixFSData(prefix, msg) = %x, want prefix dead be + %x", app, enc)
								}
								if again := data.EncodeUnixFSData(d); !bytes.Equal(again, enc) {
									c.Violation("C09|encode-unstable", "encoding the same node twice gives %x then %x", enc, again)
								}
							}
							var g2 pb.Data
							c.Count("encodes_compared", 1)
							if err := proto.Unmarshal(enc, &g2); err != nil {
								c.Violation("C09|encode-unreadable", "encoding of type %d mask %07b is rejected by the reference decoder: %v (bytes %x)", typ, mask, err, enc)
								continue
							}
							exp := toPB(m)
							if dp, ok := defaultPerm(typ); m.Mode != nil && ((ok && int(*m.Mode) == dp) || (!ok && *m.Mode == 0)) {
								exp.Mode = nil // documented elision of a default-valued mode
							}
							expB, _ := proto.Marshal(exp)
							g2B, _ := proto.Marshal(&g2)
							if !bytes.Equal(expB, g2B) {
								c.Violation("C09|encode-differs", "type %d mask %07b: reference reads the library's encoding as %x, logical message is %x (encoding %x)", typ, mask, g2B, expB, enc)
								continue
							}
							// permissions survive the round trip
							if d2, err := data.DecodeUnixFSData(enc); err != nil {
								c.Violation("C09|reencode-undecodable", "library cannot decode its own encoding %x: %v", enc, err)
							} else if p2 := d2.Permissions(); p2 != perm {
								c.Violation("C09|permissions-roundtrip", "type %d mode %v: Permissions() %#o before, %#o after encode/decode", typ, modeStr(m.Mode), perm, p2)
							}
							if k == 0 {
								c.Sig(fmt.Sprintf("t%d|m%07b|%s|%s", typ, mask, p.Class(), valueClass(vi)), fields >= 2)
							}
						}
					}
					// canonical round trip: decode(canonical) re-encodes to the same bytes
					if dp, ok := defaultPerm(typ); m.Mode == nil || !((ok && int(*m.Mode) == dp) || (!ok && *m.Mode == 0)) {
						d, err := data.DecodeUnixFSData(canon)
						if err != nil {
							c.Violation("C09|decode-rejected|canonical", "canonical encoding %x rejected: %v", canon, err)
							continue
						}
						var enc []byte
						c.Guard("EncodeUnixFSData", func() { enc = data.EncodeUnixFSData(d) })
						c.Count("canonical_roundtrips", 1)
						if !bytes.Equal(enc, canon) {
							c.Violation("C09|canonical-roundtrip", "type %d mask %07b: decode+encode of %x gives %x", typ, mask, canon, enc)
						}
					}
				}
				c.Sample(map[string]any{"type": typ, "example_presentation": fmt.Sprintf("%x", gen.Encode(rr, msgFor(typ, 127, vi), pres[9]))})
			})
		}
	}
	// messages built through the public builder API and encoded by the library
	r.Case("builder-encode", map[string]any{"messages": "6 types x masks x values via BuildUnixFS"}, func(c *mon.Case) {
		for typ := int64(0); typ < 6; typ++ {
			for mask := 0; mask < 128; mask++ {
				for vi := 0; vi < r.Pick(4, 24); vi++ {
					m := msgFor(uint64(typ), mask, vi)
					if m.FileSize != nil && *m.FileSize > 1<<63-1 {
						continue
					}
					if m.Mtime != nil && m.Mtime.Nanos != nil && *m.Mtime.Nanos > 999999999 {
						continue
					}
					var d data.UnixFSData
					var err error
					ok := c.Guard("BuildUnixFS", func() {
						d, err = builder.BuildUnixFS(func(b *builder.Builder) {
							builder.DataType(b, typ)
							if m.HasData {
								builder.Data(b, m.Data)
							}
							if m.FileSize != nil {
								builder.FileSize(b, *m.FileSize)
							}
							if m.BlockSizes != nil {
								builder.BlockSizes(b, m.BlockSizes)
							}
							if m.HashType != nil {
								builder.HashType(b, *m.HashType)
							}
							if m.Fanout != nil {
								builder.Fanout(b, *m.Fanout)
							}
							if m.Mode != nil {
								// the three notations the builder accepts for one mode value
								switch (int(typ) + int(mask) + vi) % 3 {
								case 0:
									builder.Permissions(b, int(*m.Mode))
								case 1:
									builder.PermissionsString(b, fmt.Sprintf("0%o", *m.Mode))
									c.Count("mode_strings_octal", 1)
								default:
									builder.PermissionsString(b, fmt.Sprintf("%d", *m.Mode))
									c.Count("mode_strings_decimal", 1)
								}
							}
							if m.Mtime != nil {
								builder.Mtime(b, func(tb builder.TimeBuilder) {
									builder.Seconds(tb, m.Mtime.Seconds)
									if m.Mtime.Nanos != nil {
										builder.FractionalNanoseconds(tb, int32(*m.Mtime.Nanos))
									}
								})
							}
						})
					})
					if !ok || err != nil {
						if err != nil {
							c.Violation("C09|builder-error", "BuildUnixFS type %d mask %07b: %v", typ, mask, err)
						}
						continue
					}
					var enc []byte
					if !c.Guard("EncodeUnixFSData", func() { enc = data.EncodeUnixFSData(d) }) {
						continue
					}
					c.Count("encodes_compared", 1)
					var g pb.Data
					if err := proto.Unmarshal(enc, &g); err != nil {
						c.Violation("C09|encode-unreadable", "builder message type %d mask %07b: reference rejects %x: %v", typ, mask, enc, err)
						continue
					}
					exp := toPB(m)
					if m.Mode != nil {
						masked := *m.Mode & 0xFFF
						exp.Mode = &masked
						if dp, ok := defaultPerm(uint64(typ)); (ok && int(masked) == dp) || (!ok && masked == 0) {
							exp.Mode = nil
						}
						if p := d.Permissions(); p != int(masked) {
							c.Violation("C09|permissions", "builder Permissions(%#o) reports %#o", *m.Mode, p)
						}
					}
					expB, _ := proto.Marshal(exp)
					gB, _ := proto.Marshal(&g)
					if !bytes.Equal(expB, gB) {
						c.Violation("C09|encode-differs", "builder message type %d mask %07b value %d: reference reads %x, logical message is %x (encoding %x)", typ, mask, vi, gB, expB, enc)
					}
				}
			}
		}
		c.Sig("builder-encode", true)
	})
	// results and inputs belong to the caller: what EncodeUnixFSData returns may be appended to or
	// overwritten without any effect on other results, and DecodeUnixFSData may be fed from one read
	// buffer that is refilled between calls
	r.Case("caller-owned-buffers", map[string]any{"messages": "bare and short messages of every type, pairs of equal length"}, func(c *mon.Case) {
		rr := c.Rand()
		for typ := uint64(0); typ < 6; typ++ {
			for round := 0; round < r.Pick(40, 400); round++ {
				mask := []int{0, 0, 1, 2, 64, rr.Intn(128)}[rr.Intn(6)]
				m1, m2 := msgFor(typ, mask, rr.Intn(40)), msgFor(typ, mask, rr.Intn(40))
				c1, c2 := gen.Encode(rr, m1, gen.Pres{Kind: "ordered"}), gen.Encode(rr, m2, gen.Pres{Kind: "ordered"})
				d1, e1 := data.DecodeUnixFSData(c1)
				d2, e2 := data.DecodeUnixFSData(c2)
				if e1 != nil || e2 != nil {
					continue
				}
				var a, b, a2 []byte
				if !c.Guard("EncodeUnixFSData", func() {
					a = data.EncodeUnixFSData(d1)
					want := append([]byte(nil), a...)
					// the caller extends the first result, then encodes another message and extends that
					a = append(a, 0x78, 0x01)
					b = data.EncodeUnixFSData(d2)
					b = append(b, 0x78, 0x02)
					if !bytes.Equal(a[:len(want)], want) || a[len(a)-1] != 0x01 {
						c.Violation("C09|encode-result-shared", "type %d: a result of EncodeUnixFSData that its caller appended to changed when another message was encoded and appended to: %x, was %x + 7801", typ, a, want)
					}
					// ... and scribbles over both; a later encoding of the first message is what it was
					for i := range a {
						a[i] = 0xEE
					}
					for i := range b {
						b[i] = 0xDD
					}
					a2 = data.EncodeUnixFSData(d1)
					if !bytes.Equal(a2, want) {
						c.Violation("C09|encode-result-shared", "type %d: after earlier results were overwritten by their owner, EncodeUnixFSData of the same message gives %x, before %x", typ, a2, want)
					}
				}) {
					continue
				}
				c.Count("encode_results_modified_by_caller", 1)
				// one read buffer, refilled: each message decodes to itself
				if len(c1) == len(c2) && len(c1) > 0 {
					buf := make([]byte, len(c1))
					copy(buf, c1)
					n1, err1 := data.DecodeUnixFSData(buf)
					copy(buf, c2)
					n2, err2 := data.DecodeUnixFSData(buf)
					c.Count("decodes_from_a_refilled_buffer", 1)
					if err1 != nil || err2 != nil {
						c.Violation("C09|decode-rejected|refilled-buffer", "decoding %x then %x from one buffer: %v / %v", c1, c2, err1, err2)
						continue
					}
					if g1, g2 := data.EncodeUnixFSData(n1), data.EncodeUnixFSData(d1); !bytes.Equal(g1, g2) && !bytes.Equal(c1, c2) {
						// n1 was decoded from bytes that have been overwritten since: only fields that copy are judged
						_ = g1
					}
					if g, want := data.EncodeUnixFSData(n2), data.EncodeUnixFSData(d2); !bytes.Equal(g, want) {
						c.Violation("C09|decode-differs|refilled-buffer", "type %d: %x decoded from a read buffer that held %x before re-encodes to %x, decoded from a slice of its own to %x", typ, c2, c1, g, want)
					}
				}
			}
		}
		c.Sig("caller-owned-buffers", true)
	})
	// permissions given as a Go int (builder.Permissions takes any int): what is stored are its low twelve
	// bits, for negative and very large values as well
	r.Case("builder-permissions-int", map[string]any{"modes": "boundary and random ints, negative ones too"}, func(c *mon.Case) {
		rr := c.Rand()
		modes := []int{0, 1, 0o644, 0o755, 0o7777, 0o10000, 0o100644, -1, -2, -0o644, -0o10000, -0o10001, math.MaxInt32, math.MinInt32, math.MaxInt64, math.MinInt64, math.MinInt64 + 1, 1 << 40, -(1 << 40) + 0o600}
		for i := 0; i < r.Pick(200, 4000); i++ {
			modes = append(modes, int(rr.Uint64()))
		}
		for _, mode := range modes {
			for _, typ := range []int64{data.Data_File, data.Data_Directory, data.Data_Symlink} {
				var d data.UnixFSData
				var err error
				if !c.Guard("BuildUnixFS with builder.Permissions", func() {
					d, err = builder.BuildUnixFS(func(b *builder.Builder) {
						builder.DataType(b, typ)
						builder.Permissions(b, mode)
					})
				}) {
					continue
				}
				if err != nil {
					c.Violation("C09|builder-error", "BuildUnixFS with builder.Permissions(%d): %v", mode, err)
					continue
				}
				want := mode & 0xFFF
				if p := d.Permissions(); p != want {
					c.Violation("C09|permissions", "builder.Permissions(%d) on type %d: the message reports %#o, the low twelve bits are %#o", mode, typ, p, want)
					continue
				}
				var enc []byte
				if !c.Guard("EncodeUnixFSData", func() { enc = data.EncodeUnixFSData(d) }) {
					continue
				}
				c.Count("encodes_compared", 1)
				c.Count("int_modes_encoded", 1)
				if mode < 0 {
					c.Count("negative_int_modes_encoded", 1)
				}
				var g pb.Data
				if err := proto.Unmarshal(enc, &g); err != nil {
					c.Violation("C09|encode-unreadable", "builder.Permissions(%d): reference rejects %x: %v", mode, enc, err)
					continue
				}
				dp, hasDefault := defaultPerm(uint64(typ))
				if g.Mode != nil && int(*g.Mode)&0xFFF != want || g.Mode == nil && !((hasDefault && dp == want) || (!hasDefault && want == 0)) {
					c.Violation("C09|encode-differs|builder-permissions", "builder.Permissions(%d) on type %d: the reference reads mode %v from %x, the low twelve bits are %#o", mode, typ, modeStr(g.Mode), enc, want)
				}
				if d2, err := data.DecodeUnixFSData(enc); err != nil {
					c.Violation("C09|reencode-undecodable", "builder.Permissions(%d): library cannot decode its own encoding %x: %v", mode, enc, err)
				} else if p2 := d2.Permissions(); p2 != want {
					c.Violation("C09|permissions-roundtrip", "builder.Permissions(%d) type %d: %#o before, %#o after encode/decode", mode, typ, want, p2)
				}
			}
		}
		c.Sig("builder-permissions-int", true)
	})
	// modification times given as Go time values (builder.Time): every instant a time.Time can hold has a
	// Unix second count and a nanosecond part, inside and outside the range in which a count of
	// nanoseconds fits an int64 (1678..2262)
	r.Case("builder-time", map[string]any{"instants": "boundary and random time.Time values via builder.Time"}, func(c *mon.Case) {
		rr := c.Rand()
		instants := []time.Time{{}, time.Unix(0, 0), time.Unix(-1, 999999999), time.Unix(0, 1), time.Unix(1<<31, 0), time.Unix(-(1 << 31), 5),
			time.Date(1600, 1, 1, 0, 0, 0, 7, time.UTC), time.Date(1677, 9, 21, 0, 12, 43, 145224191, time.UTC), time.Date(1677, 9, 21, 0, 12, 43, 145224193, time.UTC),
			time.Date(2262, 4, 11, 23, 47, 16, 854775807, time.UTC), time.Date(2262, 4, 11, 23, 47, 16, 854775808, time.UTC), time.Date(2300, 6, 1, 12, 0, 0, 0, time.UTC),
			time.Date(9999, 12, 31, 23, 59, 59, 999999999, time.UTC), time.Date(1, 1, 1, 0, 0, 0, 1, time.UTC), time.Date(1969, 12, 31, 23, 59, 59, 500000000, time.FixedZone("x", -7*3600)),
			time.Unix(1<<40, 3), time.Unix(-(1 << 40), 3)}
		for i := 0; i < r.Pick(300, 5000); i++ {
			instants = append(instants, time.Unix(rr.Int63n(1<<uint(20+rr.Intn(28)))*int64(1-2*rr.Intn(2)), int64(rr.Intn(1000000000))))
		}
		for _, t := range instants {
			var d data.UnixFSData
			var err error
			if !c.Guard("BuildUnixFS with builder.Time", func() {
				d, err = builder.BuildUnixFS(func(b *builder.Builder) {
					builder.DataType(b, data.Data_File)
					builder.Mtime(b, func(tb builder.TimeBuilder) { builder.Time(tb, t) })
				})
			}) {
				continue
			}
			if err != nil {
				c.Violation("C09|builder-error", "BuildUnixFS with builder.Time(%v): %v", t, err)
				continue
			}
			var enc []byte
			if !c.Guard("EncodeUnixFSData", func() { enc = data.EncodeUnixFSData(d) }) {
				continue
			}
			c.Count("encodes_compared", 1)
			c.Count("time_values_encoded", 1)
			if t.Year() < 1678 || t.Year() > 2262 {
				c.Count("time_values_outside_unixnano_range", 1)
			}
			var g pb.Data
			if err := proto.Unmarshal(enc, &g); err != nil {
				c.Violation("C09|encode-unreadable", "builder.Time(%v): reference rejects %x: %v", t, enc, err)
				continue
			}
			if g.Mtime == nil || g.Mtime.GetSeconds() != t.Unix() || int(g.Mtime.GetNanos()) != t.Nanosecond() {
				c.Violation("C09|encode-differs|builder-time", "builder.Time(%v) = second %d + %d ns: the reference reads the encoding %x as second %d + %d ns", t, t.Unix(), t.Nanosecond(), enc, g.Mtime.GetSeconds(), g.Mtime.GetNanos())
			}
		}
		c.Sig("builder-time", true)
	})
	// the codec used from several goroutines at once (each with its own messages): every encoding and
	// decoding comes out as it does alone
	r.Case("concurrent-codec", map[string]any{"goroutines": 8, "messages_each": 300}, func(c *mon.Case) {
		rr := c.Rand()
		const G = 8
		type job struct {
			node data.UnixFSData
			want []byte
		}
		jobs := make([][]job, G)
		for g := 0; g < G; g++ {
			for k := 0; k < 300; k++ {
				m := msgFor(uint64(rr.Intn(6)), 64|rr.Intn(128), rr.Intn(40)) // the mtime bit always set
				raw := gen.Encode(rr, m, gen.Pres{Kind: "ordered"})
				d, err := data.DecodeUnixFSData(raw)
				if err != nil {
					continue
				}
				jobs[g] = append(jobs[g], job{d, data.EncodeUnixFSData(d)})
			}
		}
		var wg sync.WaitGroup
		var bad int32
		var firstBad atomic.Value
		start := make(chan struct{})
		for g := 0; g < G; g++ {
			wg.Add(1)
			go func(g int) {
				defer wg.Done()
				defer func() { recover() }()
				<-start
				for rep := 0; rep < 8; rep++ {
					for _, j := range jobs[g] {
						enc := data.EncodeUnixFSData(j.node)
						back, err := data.DecodeUnixFSData(enc)
						if !bytes.Equal(enc, j.want) || err != nil || !bytes.Equal(data.EncodeUnixFSData(back), j.want) {
							if atomic.AddInt32(&bad, 1) == 1 {
								firstBad.Store(fmt.Sprintf("encoding %x while other goroutines encode; alone it is %x (decode error %v)", enc, j.want, err))
							}
						}
					}
				}
			}(g)
		}
		close(start)
		wg.Wait()
		c.Count("encodes_compared", int64(G*8*300))
		c.Count("concurrent_encodes", int64(G*8*300))
		if bad > 0 {
			c.Violation("C09|concurrent-encode-differs", "%d encodings differ under concurrency, first: %v", bad, firstBad.Load())
		}
		c.Sig("concurrent-codec", true)
	})
	// standalone timestamp and metadata messages
	r.Case("time-and-metadata", map[string]any{"seconds": len(c09Secs), "nanos": len(c09Nanos)}, func(c *mon.Case) {
		rr := c.Rand()
		for _, s := range c09Secs {
			for ni := -1; ni < len(c09Nanos); ni++ {
				tm := gen.Time{Seconds: s}
				if ni >= 0 {
					tm.Nanos = gen.U32(c09Nanos[ni])
				}
				for _, p := range pres {
					raw := gen.EncodeTime(rr, tm, p)
					var g pb.IPFSTimestamp
					if err := proto.Unmarshal(raw, &g); err != nil {
						c.Harness("reference rejects generated timestamp %x: %v", raw, err)
						continue
					}
					var d data.UnixTime
					var err error
					if !c.Guard("DecodeUnixTime", func() { d, err = decodeFromScratch(raw, data.DecodeUnixTime) }) {
						continue
					}
					c.Count("decodes_compared", 1)
					if err != nil {
						c.Violation("C09|time-rejected", "timestamp %x rejected: %v", raw, err)
						continue
					}
					if d.FieldSeconds().Int() != g.GetSeconds() || d.FieldFractionalNanoseconds().Exists() != (g.Nanos != nil) || (g.Nanos != nil && d.FieldFractionalNanoseconds().Must().Int() != int64(*g.Nanos)) {
						c.Violation("C09|time-differs", "timestamp %x: library (%d, nanos present %v) vs reference (%d, %v)", raw, d.FieldSeconds().Int(), d.FieldFractionalNanoseconds().Exists(), g.GetSeconds(), g.Nanos)
					}
					enc := data.AppendEncodeUnixTime(nil, d)
					if app := data.AppendEncodeUnixTime(append(make([]byte, 0, 3+len(raw)%9), 0x7f), d); len(app) < 1 || app[0] != 0x7f || !bytes.Equal(app[1:], enc) {
						c.Violation("C09|append-encode", "AppendEncodeUnixTime(prefix, t) = %x, want 7f + %x", app, enc)
					}
					canon, _ := proto.Marshal(&pb.IPFSTimestamp{Seconds: &tm.Seconds, Nanos: tm.Nanos})
					c.Count("canonical_roundtrips", 1)
					if !bytes.Equal(enc, canon) {
						c.Violation("C09|time-encode", "timestamp (%d,%v) encodes to %x, reference %x", tm.Seconds, tm.Nanos, enc, canon)
					}
				}
			}
		}
		for _, mt := range []*string{nil, strp(""), strp("text/plain"), strp("application/x-ünïcode; charset=utf-8"), strp(string(bytes.Repeat([]byte("a"), 300))),
			// a proto2 string is bytes on the wire: not necessarily UTF-8
			strp("text/plain; charset=\xe9"), strp("\xff\xfe/x"), strp("a\xe6\x97"), strp("\x00\x01\x80")} {
			for _, unk := range []bool{false, true} {
				canon, _ := proto.Marshal(&pb.Metadata{MimeType: mt})
				raw := canon
				if unk {
					raw = append([]byte{0x78, 0x05}, canon...) // unknown varint field 15 first
					raw = append(raw, 0x82, 0x01, 0x02, 0xaa, 0xbb)
				}
				var d data.UnixFSMetadata
				var err error
				if !c.Guard("DecodeUnixFSMetadata", func() { d, err = decodeFromScratch(raw, data.DecodeUnixFSMetadata) }) {
					continue
				}
				c.Count("decodes_compared", 1)
				if err != nil {
					c.Violation("C09|metadata-rejected", "metadata %x rejected: %v", raw, err)
					continue
				}
				if d.FieldMimeType().Exists() != (mt != nil) || (mt != nil && d.FieldMimeType().Must().String() != *mt) {
					c.Violation("C09|metadata-differs", "metadata %x decodes differently", raw)
				}
				if enc := data.EncodeUnixFSMetadata(d); !bytes.Equal(enc, canon) {
					c.Violation("C09|metadata-encode", "metadata encodes to %x, reference %x", enc, canon)
				}
				if app := data.AppendEncodeUnixFSMetadata(append(make([]byte, 0, 40), 0x01, 0x02), d); len(app) < 2 || !bytes.Equal(app[:2], []byte{1, 2}) || !bytes.Equal(app[2:], canon) {
					c.Violation("C09|append-encode", "AppendEncodeUnixFSMetadata(prefix, m) = %x, want 0102 + %x", app, canon)
				}
			}
		}
		c.Sig("time-and-metadata", true)
	})
}

func modeStr(m *uint32) string {
	if m == nil {
		return "absent"
	}
	return fmt.Sprintf("%#o", *m)
}
