package props

import (
	"bytes"
	"fmt"
	"io"
	"strings"
	"testing"

	"github.com/ipfs/go-cid"
	"github.com/ipfs/go-unixfsnode"
	"github.com/ipfs/go-unixfsnode/data/builder"
	"github.com/ipfs/go-unixfsnode/file"
	dagpb "github.com/ipld/go-codec-dagpb"
	"github.com/ipld/go-ipld-prime"
	"github.com/ipld/go-ipld-prime/datamodel"
	"github.com/ipld/go-ipld-prime/node/basicnode"
	"github.com/ipld/go-ipld-prime/traversal"
	"github.com/ipld/go-ipld-prime/traversal/selector"
	"github.com/multiformats/go-multihash"

	"verifharness/mon"
	"verifharness/oracle"
	"verifharness/store"
)

func firstOccurrences(log []string) []string {
	seen := map[string]bool{}
	var out []string
	for _, l := range log {
		if !seen[l] {
			seen[l] = true
			out = append(out, l)
		}
	}
	return out
}

func cidStrings(cs []cid.Cid) []string {
	out := make([]string, len(cs))
	for i, c := range cs {
		out[i] = c.String()
	}
	return out
}

// compareOrder checks one observed first-request order against the oracle's.
func compareOrder(c *mon.Case, key, what string, got, want []string) bool {
	c.Count("logs_compared", 1)
	c.Count("loads_compared", int64(len(got)))
	n := len(got)
	if len(want) < n {
		n = len(want)
	}
	for i := 0; i < n; i++ {
		if got[i] != want[i] {
			c.Violation(key, "%s: request #%d is %s, depth-first link order has %s there (observed %s | expected %s)", what, i, short([]string{got[i]})[0], short([]string{want[i]})[0], strings.Join(short(got), " "), strings.Join(short(want), " "))
			return false
		}
	}
	if len(got) != len(want) {
		c.Violation(key, "%s: %d distinct blocks requested, the walk has %d", what, len(got), len(want))
		return false
	}
	return true
}

func TestC20(t *testing.T) {
	r := mon.Start(t, "C20")
	defer r.Close()
	R := r.Pick(4, 10)
	// a link system of the same process that its owner reconfigured must not change what others do
	decoy := store.New().LinkSystem(true)
	decoy.KnownReifiers["unixfs-preload"] = unixfsnode.Reify
	for _, f := range fileFixtures(newRand(r.SeedFor("fixtures")), !r.Quick()) {
		f := f
		r.Case("file/"+f.Name, map[string]any{"fixture": f.Name, "root": f.Root.String()}, func(c *mon.Case) {
			w := walkerFor(f.St)
			dfs, err := w.DFS(f.Root, nil)
			if err != nil {
				c.Harness("oracle: %v", err)
				return
			}
			want := cidStrings(dfs[1:])
			depth, _, _ := shapeOf(w, f.Root)
			if depth >= 3 {
				c.Count("dags_ge3_levels", 1)
			}
			st := f.St.Clone()
			st.Logging = true
			ls := st.LinkSystemCfg(true, len(f.Content)%2 == 1, false)
			raw, err := loadRaw(ls, f.Root)
			if err != nil {
				c.Harness("load: %v", err)
				return
			}
			ops := []struct {
				name string
				run  func() error
			}{
				{"AsBytes", func() error {
					n, err := reify(ls, raw)
					if err != nil {
						return err
					}
					_, err = n.AsBytes()
					return err
				}},
				{"io.Copy", func() error {
					n, err := reify(ls, raw)
					if err != nil {
						return err
					}
					rs, err := n.(largeBytes).AsLargeBytes()
					if err != nil {
						return err
					}
					_, err = io.Copy(io.Discard, rs)
					return err
				}},
				{"Read(3)", func() error {
					n, err := reify(ls, raw)
					if err != nil {
						return err
					}
					rs, err := n.(largeBytes).AsLargeBytes()
					if err != nil {
						return err
					}
					_, err = readLoop(rs, 3, 1<<30)
					return err
				}},
				{"preload", func() error {
					_, err := ls.KnownReifiers["unixfs-preload"](ipld.LinkContext{Ctx: bg}, raw, ls)
					return err
				}},
			}
			if f.Root.Prefix().Codec == cid.DagProtobuf {
				// the file constructors handed the root decoded generically (loaded without a prototype
				// chooser) instead of as a typed dag-pb node: the same file, the same walk
				if blk, ok := st.Get(f.Root); ok {
					nb := basicnode.Prototype.Any.NewBuilder()
					if dagpb.Decode(nb, bytes.NewReader(blk)) == nil {
						generic := nb.Build()
						ops = append(ops, struct {
							name string
							run  func() error
						}{"AsBytes(generic-root)", func() error {
							n, err := file.NewUnixFSFile(bg, generic, ls)
							if err != nil {
								return err
							}
							_, err = n.AsBytes()
							return err
						}}, struct {
							name string
							run  func() error
						}{"preload(generic-root)", func() error {
							_, err := file.NewUnixFSFileWithPreload(bg, generic, ls)
							return err
						}})
						c.Count("generic_root_forms", 2)
					}
				}
			}
			for _, op := range ops {
				var prev []string
				for rep := 0; rep < R; rep++ {
					st.ResetLog()
					var oerr error
					if !c.Guard(op.name, func() { oerr = op.run() }) {
						break
					}
					if oerr != nil {
						c.Violation("C20|op-error", "%s on %s: %v", op.name, f.Name, oerr)
						break
					}
					got := firstOccurrences(st.ReadCids())
					if rep == 0 {
						if !hasSizeInfo(f.Name) {
							// a node that declares no child sizes has to be measured
							// (children opened) before it can be read; only run-to-run
							// determinism and completeness are judged for such DAGs
							c.Count("logs_compared", 1)
							if len(uniq(got)) != len(uniq(want)) {
								c.Violation("C20|file-order|"+op.name, "%s of %s: %d distinct blocks requested, the walk has %d", op.name, f.Name, len(got), len(want))
								break
							}
						} else if !compareOrder(c, "C20|file-order|"+op.name, op.name+" of "+f.Name, got, want) {
							break
						}
					} else if strings.Join(got, ",") != strings.Join(prev, ",") {
						c.Violation("C20|file-order-varies|"+op.name, "%s of %s: request order differs between run %d and run %d", op.name, f.Name, rep-1, rep)
						break
					}
					prev = got
					c.Count("repeats", 1)
				}
				c.Sig(fmt.Sprintf("file|%s|d%d|%s", strings.Split(f.Name, "-")[0], depth, op.name), len(want) >= 2)
			}
		})
	}
	seen := map[string]bool{}
	i := 0
	for _, d := range dirCases(r) {
		d := d
		if d.Builder != "sharded" || d.N < 2 || d.N > 2000 || seen[d.id()] {
			continue
		}
		if !(d.Family == "crafted" || d.Family == "crafted+filler" || d.N >= d.Fanout) {
			continue
		}
		seen[d.id()] = true
		i++
		if r.Quick() && i%2 != 0 {
			continue
		}
		r.Case("dir/"+d.id(), d, func(c *mon.Case) {
			names := namesFor(c, d)
			st := store.New()
			entries, _, _ := childEntries(st, names)
			l, _, err := builder.BuildUnixFSShardedDirectory(d.Fanout, multihash.MURMUR3X64_64, entries, st.LinkSystem(false))
			if err != nil {
				return
			}
			root := linkCid(l)
			w := walkerFor(st)
			_, shards, depth, err := w.HamtWalk(root)
			if err != nil {
				c.Harness("oracle: %v", err)
				return
			}
			want := cidStrings(shards[1:])
			if depth+1 >= 3 {
				c.Count("dags_ge3_levels", 1)
			}
			st.Logging = true
			// every other directory goes through a link system whose reifier table held another ADL first
			ls := st.LinkSystemCfg(true, len(names)%2 == 1, false)
			raw, err := loadRaw(ls, root)
			if err != nil {
				c.Harness("load: %v", err)
				return
			}
			ops := []struct {
				name string
				run  func() error
			}{
				{"MapIterator", func() error {
					n, err := reify(ls, raw)
					if err != nil {
						return err
					}
					it := n.MapIterator()
					for !it.Done() {
						if _, _, err := it.Next(); err != nil {
							return err
						}
					}
					return nil
				}},
				{"Length", func() error {
					n, err := reify(ls, raw)
					if err != nil {
						return err
					}
					if got := n.Length(); got != int64(len(names)) {
						return fmt.Errorf("Length() = %d, want %d", got, len(names))
					}
					return nil
				}},
				{"preload", func() error {
					_, err := ls.KnownReifiers["unixfs-preload"](ipld.LinkContext{Ctx: bg}, raw, ls)
					return err
				}},
				{"entity-selector", func() error {
					return entityForms[2].Run(ls, raw)
				}},
			}
			for _, op := range ops {
				var prev []string
				for rep := 0; rep < R; rep++ {
					st.ResetLog()
					var oerr error
					if !c.Guard(op.name, func() { oerr = op.run() }) {
						break
					}
					if oerr != nil {
						c.Violation("C20|op-error", "%s on fanout-%d directory: %v", op.name, d.Fanout, oerr)
						break
					}
					got := firstOccurrences(st.ReadCids())
					if rep == 0 {
						if !compareOrder(c, "C20|dir-order|"+op.name, fmt.Sprintf("%s of a fanout-%d directory (depth %d, %d shards)", op.name, d.Fanout, depth+1, len(shards)), got, want) {
							break
						}
					} else if strings.Join(got, ",") != strings.Join(prev, ",") {
						c.Violation("C20|dir-order-varies|"+op.name, "%s: request order differs between run %d and run %d", op.name, rep-1, rep)
						break
					}
					prev = got
					c.Count("repeats", 1)
				}
				c.Sig(fmt.Sprintf("dir|f%d|d%d|%s", d.Fanout, depth+1, op.name), len(want) >= 2)
			}
			// the same on ONE node whose first attempt was cut short by a load that failed once: the
			// attempt and its repetition together still request every shard, first requests in walk order
			if len(want) >= 2 {
				for _, opn := range []string{"Length", "MapIterator"} {
					for _, k := range []int{1, 1 + len(want)/2, len(want)} {
						st.ClearFaults()
						st.ResetLog()
						n, err := reify(ls, raw)
						if err != nil {
							break
						}
						run := func() (int64, error) {
							if opn == "Length" {
								if hl, ok := n.(interface{ Length() int64 }); ok {
									return hl.Length(), nil
								}
							}
							it := n.MapIterator()
							cnt := int64(0)
							var ferr error
							for !it.Done() {
								if _, _, err := it.Next(); err != nil {
									ferr = err
									continue
								}
								cnt++
							}
							return cnt, ferr
						}
						st.FailReadAt = k
						st.FailErr = store.ErrInjected
						c.Guard(opn+" interrupted", func() { run() })
						hit := st.InjectedHits > 0
						st.ClearFaults()
						var got2 int64
						var err2 error
						if !c.Guard(opn+" repeated", func() { got2, err2 = run() }) {
							continue
						}
						c.Count("interrupted_then_repeated", 1)
						if err2 != nil || got2 != int64(len(names)) {
							c.Violation("C20|resumed-result|"+opn, "%s on a fanout-%d directory, repeated on the same node after load #%d of the first attempt had failed once, gives (%d, %v), want %d entries", opn, d.Fanout, k, got2, err2, len(names))
							continue
						}
						if hit && opn == "MapIterator" {
							// iteration carries on past a shard it cannot load, so only the set is fixed
							got := firstOccurrences(st.ReadCids())
							if len(got) != len(want) {
								c.Violation("C20|dir-order|MapIterator-resumed", "iteration interrupted at load #%d and repeated on the same node requested %d distinct shards, the directory has %d", k, len(got), len(want))
							}
						} else if hit {
							compareOrder(c, "C20|dir-order|"+opn+"-resumed", fmt.Sprintf("%s interrupted at load #%d and repeated on the same node (fanout %d, %d shards)", opn, k, d.Fanout, len(shards)), firstOccurrences(st.ReadCids()), want)
						}
					}
				}
				st.ClearFaults()
			}
		})
	}
	// path traversals: blocks along the path in root-to-target order
	for i := 0; i < r.Pick(30, 500); i++ {
		i := i
		r.Case(fmt.Sprintf("tree/%d", i), map[string]any{"tree": i}, func(c *mon.Case) {
			root := genTree(c.Rand(), 3, true)
			st := store.New()
			if err := buildTree(st, root, nil); err != nil {
				c.Harness("tree build: %v", err)
				return
			}
			w := walkerFor(st)
			st.Logging = true
			ls := st.LinkSystem(true)
			for _, n := range root.all() {
				if len(n.Path) == 0 {
					continue
				}
				var want []string
				cur := root
				for _, seg := range n.Path {
					if cur.Kind == "hamt" {
						p, _, err := w.HamtLookupPath(cur.Cid, seg)
						if err != nil {
							c.Harness("oracle: %v", err)
							return
						}
						want = append(want, cidStrings(p)...)
					}
					cur = cur.child(seg)
					want = append(want, cur.Cid.String())
				}
				want = firstOccurrences(want)
				var prev []string
				for rep := 0; rep < 2; rep++ {
					raw, err := loadRaw(ls, root.Cid)
					if err != nil {
						c.Harness("load: %v", err)
						return
					}
					st.ResetLog()
					var werr error
					c.Guard("path traversal", func() {
						sel, e := selector.CompileSelector(unixfsnode.UnixFSPathSelector(strings.Join(n.Path, "/")))
						if e != nil {
							werr = e
							return
						}
						werr = progressFor(ls).WalkMatching(raw, sel, func(traversal.Progress, datamodel.Node) error { return nil })
					})
					if werr != nil {
						c.Violation("C20|op-error", "path traversal %q: %v", strings.Join(n.Path, "/"), werr)
						break
					}
					got := firstOccurrences(st.ReadCids())
					// drop the root if the traversal re-requested it
					if rep == 0 {
						if !compareOrder(c, "C20|path-order", fmt.Sprintf("UnixFSPathSelector(%q)", strings.Join(n.Path, "/")), got, want) {
							break
						}
					} else if strings.Join(got, ",") != strings.Join(prev, ",") {
						c.Violation("C20|path-order-varies", "path %q: request order differs between runs", strings.Join(n.Path, "/"))
					}
					prev = got
				}
				c.Sig(fmt.Sprintf("path|depth%d|%s", len(n.Path), n.Kind), len(want) >= 3)
			}
		})
	}
}

var _ = oracle.PadLen
var _ = store.New
