package props

import (
	"bytes"
	"fmt"
	"io"
	"runtime"
	"strings"
	"testing"
	"testing/iotest"

	"github.com/ipfs/go-cid"
	"github.com/ipfs/go-unixfsnode/data/builder"
	"github.com/ipfs/go-unixfsnode/file"
	"github.com/ipld/go-ipld-prime"

	"verifharness/gen"
	"verifharness/mon"
	"verifharness/oracle"
	"verifharness/store"
)

// openPaths returns the four ways of turning a stored file root into a node.
func openPaths(c *mon.Case, st *store.Store, root cid.Cid, contentLen int) map[string]ipld.Node {
	out := map[string]ipld.Node{}
	// rotate over link-system configurations: plain, reifier table with other entries, NodeReifier installed
	lsCfgSalt++
	cfg := lsCfgSalt % 3
	if cfg == 2 && contentLen > 64 {
		cfg = 1 // the NodeReifier configuration re-reads whole sub-trees per Read call: keep it to small files
	}
	ls := st.LinkSystemCfg(true, cfg == 1, cfg == 2)
	c01LS = ls
	c.Count(fmt.Sprintf("linksystem_cfg_%d", cfg), 1)
	raw, err := loadRaw(st.LinkSystem(false), root)
	if err != nil {
		c.Violation("C01|load-root", "loading stored root %s: %v", root, err)
		return out
	}
	c.Guard("file.NewUnixFSFile", func() {
		n, err := file.NewUnixFSFile(bg, raw, ls)
		if err != nil {
			c.Violation("C01|open|direct", "NewUnixFSFile: %v", err)
			return
		}
		out["direct"] = n
	})
	c.Guard("Reify", func() {
		n, err := reify(ls, raw)
		if err != nil {
			c.Violation("C01|open|reify", "Reify: %v", err)
			return
		}
		out["reify"] = n
	})
	c.Guard("KnownReifiers[unixfs]", func() {
		n, err := ls.KnownReifiers["unixfs"](ipld.LinkContext{Ctx: bg}, raw, ls)
		if err != nil {
			c.Violation("C01|open|lazy", "unixfs reifier: %v", err)
			return
		}
		out["lazy"] = n
	})
	c.Guard("KnownReifiers[unixfs-preload]", func() {
		n, err := ls.KnownReifiers["unixfs-preload"](ipld.LinkContext{Ctx: bg}, raw, ls)
		if err != nil {
			c.Violation("C01|open|preload", "unixfs-preload reifier: %v", err)
			return
		}
		out["preload"] = n
	})
	return out
}

// c01LS is the link system the nodes of the current case were opened with (its owner may re-target it).
var c01LS *ipld.LinkSystem

type c01KeptValue struct {
	got, want []byte
	what      string
}

// c01Kept holds the last whole values handed out by AsBytes, across cases of
// one worker process.
var c01Kept []c01KeptValue

// checkReadBack is the C01 monitor for one stored file DAG.
func checkReadBack(c *mon.Case, st *store.Store, root cid.Cid, content []byte, writer string, chunkBytes int) {
	w := walkerFor(st)
	depth, spine, blocks := shapeOf(w, root)
	if depth >= 2 {
		c.Count("dags_ge2_levels", 1)
	}
	if depth >= 3 {
		c.Count("dags_ge3_levels", 1)
	}
	c.Max("max_depth", int64(depth))
	bufs := []int{1, 2, 3, 4096}
	if chunkBytes > 1 {
		bufs = append(bufs, chunkBytes-1, chunkBytes, chunkBytes+1)
	}
	if len(content) > 1<<16 {
		bufs = []int{4096, chunkBytes + 1, 1 << 20}
		if chunkBytes > 2 {
			bufs = append(bufs, chunkBytes-1)
		}
	}
	// declared file size of the root, decoded independently
	if rn, err := w.Node(root); err == nil && rn.IsPB && len(rn.Links) > 0 {
		if rn.FS == nil || rn.FS.Filesize == nil {
			if strings.HasPrefix(writer, "builder") {
				c.Violation("C01|filesize|absent", "root of a multi-block file declares no file size")
			}
		} else if rn.FS.GetFilesize() != uint64(len(content)) {
			c.Violation("C01|filesize|wrong", "declared FileSize %d, content length %d", rn.FS.GetFilesize(), len(content))
		}
	}
	for name, n := range openPaths(c, st, root, len(content)) {
		name, n := name, n
		if n.Kind() != ipld.Kind_Bytes {
			c.Violation("C01|kind|"+name, "file node kind is %v", n.Kind())
			continue
		}
		cmp := func(how string, got []byte, err error) {
			c.Count("reads_compared", 1)
			if err != nil {
				c.Violation("C01|read-error|"+how, "[%s/%s] error %v after %d of %d bytes (depth %d spine %v)", name, how, err, len(got), len(content), depth, spine)
				return
			}
			if !bytes.Equal(got, content) {
				c.Violation("C01|bytes-differ|"+how, "[%s/%s] got %d bytes (sha %s), want %d (sha %s), first difference at offset %d (depth %d spine %v)", name, how, len(got), sum(got), len(content), sum(content), firstDiff(got, content), depth, spine)
			}
		}
		c.Guard("AsBytes", func() {
			b, err := n.AsBytes()
			cmp("AsBytes", b, err)
			// whole values handed out earlier (for this and for other files) must still hold their
			// own bytes after later calls: a value is not a view of something that is reused
			for _, k := range c01Kept {
				if !bytes.Equal(k.got, k.want) {
					c.Violation("C01|kept-value-changed", "the bytes AsBytes returned earlier for %s (%d bytes) no longer equal that file's content after a later AsBytes on another node (first difference at %d)", k.what, len(k.want), firstDiff(k.got, k.want))
					c01Kept = nil
					break
				}
			}
			if err == nil && len(b) > 0 && len(b) <= 1<<16 {
				c01Kept = append(c01Kept, c01KeptValue{b, append([]byte(nil), content...), fmt.Sprintf("%s/%s", root, name)})
				if len(c01Kept) > 24 {
					c01Kept = c01Kept[1:]
				}
				c.Count("kept_values_rechecked", int64(len(c01Kept)))
			}
		})
		// two readers of ONE node read alternately, and a reader paused mid-file while the node's
		// whole value is taken: readers of one node are independent of each other
		if len(content) > 0 && len(content) <= 1<<16 {
			c.Guard("two live readers of one node", func() {
				lbp, ok := n.(largeBytes)
				if !ok {
					return
				}
				ra, err := lbp.AsLargeBytes()
				if err != nil {
					return
				}
				rb, err := lbp.AsLargeBytes()
				if err != nil {
					return
				}
				var ga, gb []byte
				var ea, eb error
				bufA, bufB := make([]byte, 3), make([]byte, 2)
				step := func(r io.Reader, buf []byte, acc *[]byte, e *error) {
					if *e != nil {
						return
					}
					k, err := r.Read(buf)
					*acc = append(*acc, buf[:k]...)
					*e = err
				}
				for i := 0; (ea == nil || eb == nil) && i < 2*len(content)+16; i++ {
					step(ra, bufA, &ga, &ea)
					if i == len(content)/6 {
						// the paused moment: a whole-value pass over the same node
						b, err := n.AsBytes()
						cmp("AsBytes-beside-live-readers", b, err)
					}
					step(rb, bufB, &gb, &eb)
				}
				if ea == io.EOF {
					ea = nil
				}
				if eb == io.EOF {
					eb = nil
				}
				cmp("interleaved-reader-a", ga, ea)
				cmp("interleaved-reader-b", gb, eb)
				c.Count("interleaved_reader_pairs", 1)
			})
		}
		// a size probe at the end, a read there (end of file), then rewind and stream
		c.Guard("probe end, read there, rewind, stream", func() {
			lbp, ok := n.(largeBytes)
			if !ok {
				return
			}
			r, err := lbp.AsLargeBytes()
			if err != nil {
				return
			}
			if end, err := r.Seek(0, io.SeekEnd); err != nil || end != int64(len(content)) {
				c.Violation("C01|seek-end", "[%s] Seek(0,End) = (%d, %v), content length %d", name, end, err, len(content))
				return
			}
			if k, err := r.Read(make([]byte, 8)); k != 0 || err != io.EOF {
				c.Violation("C01|read-at-end", "[%s] Read at the end returned (%d, %v)", name, k, err)
				return
			}
			if _, err := r.Seek(0, io.SeekStart); err != nil {
				c.Violation("C01|read-error|rewind", "[%s] rewind: %v", name, err)
				return
			}
			b, err := io.ReadAll(r)
			cmp("probe-end+rewind+ReadAll", b, err)
		})
		lb, ok := n.(largeBytes)
		if !ok {
			c.Violation("C01|no-large-bytes|"+name, "file node %T has no AsLargeBytes", n)
			continue
		}
		open := func() io.ReadSeeker {
			r, err := lb.AsLargeBytes()
			if err != nil {
				c.Violation("C01|AsLargeBytes|"+name, "AsLargeBytes: %v", err)
				return nil
			}
			return r
		}
		for _, bs := range bufs {
			bs := bs
			c.Guard("Read loop", func() {
				if r := open(); r != nil {
					b, err := readLoop(r, bs, len(content)+64)
					cmp(fmt.Sprintf("Read(buf=%s)", bufClass(bs, chunkBytes)), b, err)
				}
			})
		}
		c.Guard("Read loop with empty reads", func() {
			// a zero-length Read between ordinary reads must neither consume nor end the stream
			if r := open(); r != nil {
				var out bytes.Buffer
				buf := make([]byte, 5)
				var rerr error
				for i := 0; i < len(content)+16; i++ {
					if n0, e0 := r.Read(nil); n0 != 0 || (e0 != nil && (e0 != io.EOF || out.Len() < len(content))) {
						rerr = fmt.Errorf("Read(nil) after %d of %d bytes returned (%d, %v)", out.Len(), len(content), n0, e0)
						break
					}
					n, err := r.Read(buf)
					out.Write(buf[:n])
					if err == io.EOF {
						break
					}
					if err != nil {
						rerr = err
						break
					}
				}
				if len(content) <= 1<<16 {
					cmp("Read(buf=5,empty-interleaved)", out.Bytes(), rerr)
				}
			}
		})
		if len(content) <= 1<<16 {
			c.Guard("OneByteReader", func() {
				if r := open(); r != nil {
					b, err := io.ReadAll(iotest.OneByteReader(r))
					cmp("OneByteReader", b, err)
				}
			})
			c.Guard("HalfReader", func() {
				if r := open(); r != nil {
					b, err := io.ReadAll(iotest.HalfReader(r))
					cmp("HalfReader", b, err)
				}
			})
		}
		c.Guard("io.Copy", func() {
			if r := open(); r != nil {
				var bb bytes.Buffer
				_, err := io.Copy(&bb, r)
				cmp("io.Copy", bb.Bytes(), err)
			}
		})
		c.Guard("rewind and re-read", func() {
			// the same reader, used twice: stream to the end, rewind, stream again; peek, rewind, read all
			if r := open(); r != nil {
				first, err := io.ReadAll(r)
				cmp("ReadAll#1", first, err)
				if _, err := r.Seek(0, io.SeekStart); err != nil {
					c.Violation("C01|rewind", "[%s] Seek(0,Start) after reading to the end: %v", name, err)
					return
				}
				second, err := io.ReadAll(r)
				cmp("ReadAll#2-after-rewind", second, err)
				if _, err := r.Seek(0, io.SeekStart); err == nil && len(content) > 3 {
					peek := make([]byte, len(content)/3)
					io.ReadFull(r, peek)
					r.Seek(0, io.SeekStart)
					third, err := io.ReadAll(r)
					cmp("ReadAll#3-after-peek", third, err)
					// read a header, then hand the rest to io.Copy (which prefers io.WriterTo)
					r.Seek(0, io.SeekStart)
					io.ReadFull(r, peek)
					var rest bytes.Buffer
					_, err = io.Copy(&rest, r)
					cmp("peek+io.Copy", append(append([]byte(nil), peek...), rest.Bytes()...), err)
					if _, err := r.Seek(int64(len(content)/2), io.SeekStart); err == nil {
						rest.Reset()
						_, err = io.Copy(&rest, r)
						cmp("seek+io.Copy", append(append([]byte(nil), content[:len(content)/2]...), rest.Bytes()...), err)
					}
				}
			}
		})
		if blocks >= 2 && len(content) >= 3 && c01LS != nil {
			// the owner of the link system points it at other storage holding the same blocks and shuts
			// the old one while a reader is part-way through the file: the reader carries on from there
			c.Guard("retarget mid-read", func() {
				r := open()
				if r == nil {
					return
				}
				head := make([]byte, len(content)/3)
				_, err := io.ReadFull(r, head)
				if err != nil {
					cmp("read-a-third", head, err)
					return
				}
				st2 := st.Clone()
				oldOpener := c01LS.StorageReadOpener
				c01LS.StorageReadOpener = st2.OpenRead
				st.Closed = true
				rest, err := io.ReadAll(r)
				st.Closed = false
				c01LS.StorageReadOpener = oldOpener
				c.Count("readers_retargeted_mid_read", 1)
				cmp("read-a-third+retarget+ReadAll", append(head, rest...), err)
			})
		}
		c.Guard("Seek(0,End)", func() {
			if r := open(); r != nil {
				end, err := r.Seek(0, io.SeekEnd)
				c.Count("seek_end_checked", 1)
				if err != nil || end != int64(len(content)) {
					c.Violation("C01|seek-end", "[%s] Seek(0,End) = (%d,%v), content length %d (depth %d spine %v)", name, end, err, len(content), depth, spine)
				}
			}
		})
	}
	c.Sig(fmt.Sprintf("%s|w-depth%d|spine%v", writer, depth, spine), blocks >= 2)
}

func bufClass(bs, chunk int) string {
	switch {
	case bs <= 3:
		return fmt.Sprint(bs)
	case bs == chunk-1:
		return "k-1"
	case bs == chunk:
		return "k"
	case bs == chunk+1:
		return "k+1"
	}
	return "big"
}

func chunkBytesOf(ch string) int {
	var k int
	if _, err := fmt.Sscanf(ch, "size-%d", &k); err == nil {
		return k
	}
	if ch == "rabin-16-32-64" {
		return 32
	}
	if ch == "rabin-32-64-128" {
		return 64
	}
	return 262144
}

func TestC01(t *testing.T) {
	r := mon.Start(t, "C01")
	defer r.Close()
	seen := map[string]bool{}
	for _, fc := range fileCases(r) {
		fc := fc
		id := fc.id("build")
		if seen[id] {
			continue
		}
		seen[id] = true
		r.Case(id, fc, func(c *mon.Case) {
			content := gen.Content(c.Rand(), fc.Kind, fc.Len)
			st := store.New()
			var root cid.Cid
			var err error
			bls := st.LinkSystem(false)
			if fc.Len%3 == 2 {
				bls = store.ChunkedEncoders(bls, 1+fc.Len%61) // encoders that emit a block in several Write calls
				c.Count("builds_with_piecewise_encoders", 1)
			}
			withWidth(fc.Width, func() {
				var l ipld.Link
				l, _, err = builder.BuildUnixFSFile(bytes.NewReader(content), fc.Chunker, bls)
				root = linkCid(l)
			})
			if err != nil {
				c.Violation("C01|build-error", "BuildUnixFSFile: %v", err)
				return
			}
			c.Count("builds", 1)
			checkReadBack(c, st, root, content, "builder/"+chunkerKind(fc.Chunker)+fmt.Sprintf("/w%d", fc.Width), chunkBytesOf(fc.Chunker))
			c.Sample(map[string]any{"root": root.String(), "blocks": st.Len(), "reads_compared": "see counters"})
		})
	}
	if !r.Quick() {
		// 2^32+1 bytes of streamed zeros: lengths and offsets beyond 32 bits
		r.Case("build/huge-zero-stream", map[string]any{"len": int64(1)<<32 + 1, "width": 2, "chunker": "size-1048576"}, func(c *mon.Case) {
			const n = int64(1)<<32 + 1
			st := store.New()
			var l ipld.Link
			var err error
			withWidth(2, func() {
				l, _, err = builder.BuildUnixFSFile(&zeroReader{left: n}, "size-1048576", st.LinkSystem(false))
			})
			if err != nil {
				c.Violation("C01|build-error", "%v", err)
				return
			}
			ls := st.LinkSystem(true)
			node, err := loadReified(ls, linkCid(l))
			if err != nil {
				c.Violation("C01|open|reify", "%v", err)
				return
			}
			if rn, e := walkerFor(st).Node(linkCid(l)); e == nil && (rn.FS == nil || rn.FS.GetFilesize() != uint64(n)) {
				c.Violation("C01|filesize|wrong", "declared FileSize %v for %d bytes", rn.FS.GetFilesize(), n)
			}
			rs, _ := node.(largeBytes).AsLargeBytes()
			if end, err := rs.Seek(0, io.SeekEnd); err != nil || end != n {
				c.Violation("C01|seek-end", "Seek(0,End) = (%d,%v), want %d", end, err, n)
			}
			// the last bytes, addressed with an offset beyond 2^32
			if _, err := rs.Seek(n-3, io.SeekStart); err == nil {
				tail, err := io.ReadAll(rs)
				if err != nil || len(tail) != 3 {
					c.Violation("C01|bytes-differ|tail", "reading from offset 2^32-2 returned %d bytes, err %v", len(tail), err)
				}
			}
			rs.Seek(0, io.SeekStart)
			var total int64
			buf := make([]byte, 1<<20)
			nonzero := false
			for {
				k, err := rs.Read(buf)
				for _, b := range buf[:k] {
					if b != 0 {
						nonzero = true
					}
				}
				total += int64(k)
				if err != nil {
					if err != io.EOF {
						c.Violation("C01|read-error|huge", "after %d bytes: %v", total, err)
					}
					break
				}
			}
			c.Count("reads_compared", 1)
			if total != n || nonzero {
				c.Violation("C01|bytes-differ|huge", "streamed %d bytes (non-zero byte seen: %v), want %d zeros", total, nonzero, n)
			}
			c.Sig("builder/huge", true)
		})
	}
	if !r.Quick() {
		// a whole value of more than 2^30 bytes (AsBytes, not streaming): about 3 GiB of memory for a moment
		r.Case("builder/whole-value-over-1GiB", map[string]any{"len": int64(1)<<30 + 1<<20 + 12, "chunker": "size-1048576"}, func(c *mon.Case) {
			n := int64(1)<<30 + 1<<20 + 12
			st := store.New()
			var l ipld.Link
			var err error
			withWidth(174, func() {
				l, _, err = builder.BuildUnixFSFile(&zeroReader{left: n}, "size-1048576", st.LinkSystem(false))
			})
			if err != nil {
				c.Violation("C01|build-error", "%v", err)
				return
			}
			node, err := loadReified(st.LinkSystem(true), linkCid(l))
			if err != nil {
				c.Violation("C01|open|reify", "%v", err)
				return
			}
			var b []byte
			if !c.Guard("AsBytes of 1 GiB + 1 MiB + 12", func() { b, err = node.AsBytes() }) {
				return
			}
			c.Count("reads_compared", 1)
			nonzero := false
			for _, x := range b {
				if x != 0 {
					nonzero = true
					break
				}
			}
			if err != nil || int64(len(b)) != n || nonzero {
				c.Violation("C01|bytes-differ|AsBytes", "AsBytes of a file of %d bytes returned %d bytes (non-zero byte seen: %v), err %v", n, len(b), nonzero, err)
			}
			b = nil
			runtime.GC()
			c.Sig("builder/whole-value-over-1GiB", true)
		})
	}
	// files written by the reference importer in its eight modes
	modes := []oracle.ImportMode{}
	for _, lay := range []string{"balanced", "trickle"} {
		for _, raw := range []bool{true, false} {
			for _, v1 := range []bool{true, false} {
				modes = append(modes, oracle.ImportMode{Layout: lay, RawLeaves: raw, CidV1: v1})
			}
		}
	}
	// ... and with small blocks inlined into identity CIDs (ipfs add --inline)
	modes = append(modes, oracle.ImportMode{Layout: "balanced", RawLeaves: false, CidV1: true, Inline: 24}, oracle.ImportMode{Layout: "balanced", RawLeaves: true, CidV1: true, Inline: 40}, oracle.ImportMode{Layout: "trickle", RawLeaves: false, CidV1: true, Inline: 64})
	counts := []int{0, 1, 2, 3, 4, 5, 9, 10, 13, 27, 28, 40}
	if !r.Quick() {
		counts = nil
		for n := 0; n <= 45; n++ {
			counts = append(counts, n)
		}
		counts = append(counts, 81, 82, 100, 243, 244)
	}
	for _, m := range modes {
		for _, w := range []int{2, 3} {
			for _, n := range counts {
				for _, tail := range []int{0, 1} {
					if n == 0 && tail == 1 {
						continue
					}
					m, w, n, tail := m, w, n, tail
					l := n * 4
					if tail == 1 {
						l = n*4 - 3
					}
					desc := map[string]any{"mode": m.String(), "width": w, "len": l, "chunker": "size-4"}
					r.Case(fmt.Sprintf("ref/%s/w%d/len%d", m, w, l), desc, func(c *mon.Case) {
						content := gen.Content(c.Rand(), "rand", l)
						st := store.New()
						root, _, err := oracle.RefImport(st, bytes.NewReader(content), "size-4", w, m)
						if err != nil {
							c.Harness("reference importer refused input: %v", err)
							return
						}
						c.Count("ref_imports", 1)
						checkReadBack(c, st, root, content, "ref/"+m.String()+fmt.Sprintf("/w%d", w), 4)
					})
				}
			}
		}
	}
	// one larger default-chunker import per mode
	for _, m := range modes {
		m := m
		n := 600000
		r.Case(fmt.Sprintf("ref/%s/default/len%d", m, n), map[string]any{"mode": m.String(), "width": 2, "len": n, "chunker": ""}, func(c *mon.Case) {
			content := gen.Content(c.Rand(), "rand", n)
			st := store.New()
			root, _, err := oracle.RefImport(st, bytes.NewReader(content), "", 2, m)
			if err != nil {
				c.Harness("reference importer refused input: %v", err)
				return
			}
			c.Count("ref_imports", 1)
			checkReadBack(c, st, root, content, "ref/"+m.String()+"/default", 262144)
		})
	}
	// hand-made files: legal shapes no importer emits (no blocksizes and/or no
	// filesize, dag-pb leaves of type Raw or File, CIDv0)
	handAll := append(handVariants(),
		handFileOpts{Width: 3, PBLeaves: true, LeafType: 2, EmptyData: true},
		handFileOpts{Width: 2, PBLeaves: false, EmptyData: true},
		handFileOpts{Width: 3, PBLeaves: false, InlineOdd: true},
		handFileOpts{Width: 2, PBLeaves: true, LeafType: 2, InlineOdd: true},
		handFileOpts{Width: 3, PBLeaves: true, LeafType: 2, NoBlockSize: true, PBTsize: 2},
		handFileOpts{Width: 2, PBLeaves: true, LeafType: 0, NoBlockSize: true, NoFileSize: true, PBTsize: 2})
	for _, o := range handAll {
		for _, n := range []int{1, 2, 3, 5, 9, 10} {
			o, n := o, n
			desc := map[string]any{"opts": fmt.Sprintf("%+v", o), "chunks": n}
			r.Case(fmt.Sprintf("hand/%s/n%d", handName(o), n), desc, func(c *mon.Case) {
				content := gen.Content(c.Rand(), "rand", n*5-2)
				st := store.New()
				root, _ := handFile(st, splitChunks(content, 5), o)
				if o.NoFileSize && o.NoBlockSize && false {
					return
				}
				c.Count("hand_files", 1)
				checkReadBack(c, st, root, content, "hand/"+handName(o), 5)
			})
		}
	}
}
