package props

import "math/rand"

func newRand(seed uint64) *rand.Rand { return rand.New(rand.NewSource(int64(seed))) }
