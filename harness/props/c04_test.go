package props

import (
	"bytes"
	"fmt"
	"io"
	"math"
	"math/rand"
	"sort"
	"strings"
	"testing"

	"github.com/ipfs/go-cid"
	"github.com/ipfs/go-unixfsnode/data/builder"
	"github.com/ipld/go-ipld-prime"

	"verifharness/gen"
	"verifharness/mon"
	"verifharness/oracle"
	"verifharness/store"
)

// fileFixture is a stored file DAG with its content and leaf boundaries.
type fileFixture struct {
	Name       string
	St         *store.Store
	Root       cid.Cid
	Content    []byte
	Boundaries []int64 // leaf start offsets (sorted, includes 0 and len)
}

func mkFixture(name string, st *store.Store, root cid.Cid, content []byte) *fileFixture {
	f := &fileFixture{Name: name, St: st, Root: root, Content: content}
	spans, oc, err := walkerFor(st).FileSpans(root)
	if err != nil || !bytes.Equal(oc, content) {
		panic(fmt.Sprintf("fixture %s: oracle walk disagrees with content: %v", name, err))
	}
	set := map[int64]bool{0: true, int64(len(content)): true}
	for _, s := range spans {
		if s.Leaf {
			set[s.Start] = true
		}
	}
	for b := range set {
		f.Boundaries = append(f.Boundaries, b)
	}
	sort.Slice(f.Boundaries, func(i, j int) bool { return f.Boundaries[i] < f.Boundaries[j] })
	return f
}

// fileFixtures builds the set of file shapes used by C04/C05/C12/C20.
func fileFixtures(r *rand.Rand, thorough bool) []*fileFixture {
	var out []*fileFixture
	build := func(name string, w int, ch string, n int, kind string) {
		st := store.New()
		content := gen.Content(r, kind, n)
		var l ipld.Link
		var err error
		withWidth(w, func() { l, _, err = builder.BuildUnixFSFile(bytes.NewReader(content), ch, st.LinkSystem(false)) })
		if err != nil {
			panic(err)
		}
		out = append(out, mkFixture(name, st, linkCid(l), content))
	}
	build("empty", 3, "size-4", 0, "rand")
	build("single-raw", 3, "size-64", 37, "rand")
	build("two-level", 5, "size-8", 37, "rand")
	build("three-level-w2", 2, "size-4", 30, "rand")
	build("three-level-w3", 3, "size-5", 52, "rand")
	build("four-level-w2", 2, "size-3", 40, "rand")
	build("repeated-chunks", 2, "size-4", 28, "zero")
	build("one-byte-chunks", 3, "size-1", 11, "rand")
	ref := func(name string, m oracle.ImportMode, w, n int) {
		st := store.New()
		content := gen.Content(r, "rand", n)
		root, _, err := oracle.RefImport(st, bytes.NewReader(content), "size-6", w, m)
		if err != nil {
			panic(err)
		}
		out = append(out, mkFixture(name, st, root, content))
	}
	ref("ref-wrapped-single-v0", oracle.ImportMode{Layout: "balanced", RawLeaves: false, CidV1: false}, 3, 5)
	ref("ref-balanced-pb-v0", oracle.ImportMode{Layout: "balanced", RawLeaves: false, CidV1: false}, 2, 40)
	ref("ref-trickle-pb-v1", oracle.ImportMode{Layout: "trickle", RawLeaves: false, CidV1: true}, 2, 50)
	ref("ref-trickle-raw-v1", oracle.ImportMode{Layout: "trickle", RawLeaves: true, CidV1: true}, 3, 60)
	// small blocks inlined into identity CIDs (ipfs add --inline), protobuf and raw leaves
	ref("ref-inline-pb-v1", oracle.ImportMode{Layout: "balanced", RawLeaves: false, CidV1: true, Inline: 32}, 3, 57)
	ref("ref-inline-raw-v1", oracle.ImportMode{Layout: "balanced", RawLeaves: true, CidV1: true, Inline: 32}, 2, 35)
	hand := func(o handFileOpts, n int) {
		st := store.New()
		content := gen.Content(r, "rand", n)
		root, _ := handFile(st, splitChunks(content, 5), o)
		out = append(out, mkFixture("hand-"+handName(o), st, root, content))
	}
	for i, o := range handVariants() {
		if thorough || i%3 == 1 || (o.PBLeaves && o.NoBlockSize) {
			hand(o, 43)
		}
	}
	// interior nodes of UnixFS type Raw (with sizes): over dag-pb leaves and over raw leaves
	hand(handFileOpts{Width: 3, PBLeaves: true, LeafType: 2, InteriorRaw: true}, 47)
	hand(handFileOpts{Width: 2, PBLeaves: false, InteriorRaw: true}, 38)
	// link Tsize is advisory for dag-pb children: zero, absent or tiny values with correct block sizes
	hand(handFileOpts{Width: 3, PBLeaves: true, LeafType: 2, PBTsize: 1}, 44)
	hand(handFileOpts{Width: 2, PBLeaves: false, PBTsize: 2}, 41)
	hand(handFileOpts{Width: 3, PBLeaves: true, LeafType: 2, PBTsize: 3}, 46)
	hand(handFileOpts{Width: 2, PBLeaves: true, LeafType: 0, PBTsize: 2}, 39)
	hand(handFileOpts{Width: 3, PBLeaves: false, HighMode: true}, 42)
	// every second leaf inlined into an identity CID, next to hashed siblings under the same parent
	// (an importer that inlines small blocks only): raw and dag-pb leaves
	hand(handFileOpts{Width: 3, PBLeaves: false, InlineOdd: true}, 44)
	hand(handFileOpts{Width: 2, PBLeaves: true, LeafType: 2, InlineOdd: true}, 36)
	// dag-pb children that are described by nothing at all: no block sizes on the parent and no Tsize
	// on the link (both optional); with and without a declared file size
	hand(handFileOpts{Width: 3, PBLeaves: true, LeafType: 2, NoBlockSize: true, PBTsize: 2}, 45)
	hand(handFileOpts{Width: 2, PBLeaves: true, LeafType: 0, NoBlockSize: true, NoFileSize: true, PBTsize: 2}, 34)
	hand(handFileOpts{Width: 3, PBLeaves: true, LeafType: 2, NoBlockSize: true, PBTsize: 1}, 40)
	// interior nodes whose Data field is present but empty (content-identical to leaving it out)
	hand(handFileOpts{Width: 3, PBLeaves: true, LeafType: 2, EmptyData: true}, 49)
	hand(handFileOpts{Width: 2, PBLeaves: false, EmptyData: true}, 33)
	hand(handFileOpts{Width: 3, PBLeaves: true, LeafType: 2, InteriorRaw: true, EmptyData: true}, 37)
	// one block size too many (a trailing 0 entry without a link)
	hand(handFileOpts{Width: 3, PBLeaves: true, LeafType: 2, ExtraBlockSize: true}, 50)
	{
		// an empty chunk in the middle (declared block size 0)
		st := store.New()
		content := []byte("hello world")
		root, _ := handFile(st, [][]byte{[]byte("hello "), {}, []byte("world")}, handFileOpts{Width: 3, PBLeaves: true, LeafType: 2})
		out = append(out, mkFixture("hand-emptychunk-pb", st, root, content))
		st2 := store.New()
		root2, _ := handFile(st2, [][]byte{[]byte("hel"), []byte("lo "), {}, []byte("wor"), {}, []byte("ld")}, handFileOpts{Width: 2, PBLeaves: false})
		out = append(out, mkFixture("hand-emptychunk-raw", st2, root2, content))
		// empty chunks at the very end of the file (blocks after the last data byte)
		st3 := store.New()
		root3, _ := handFile(st3, [][]byte{[]byte("hel"), []byte("lo "), []byte("wor"), []byte("ld"), {}, {}}, handFileOpts{Width: 2, PBLeaves: true, LeafType: 2})
		out = append(out, mkFixture("hand-trailingempty-pb", st3, root3, content))
		st4 := store.New()
		root4, _ := handFile(st4, [][]byte{[]byte("hello "), []byte("world"), {}}, handFileOpts{Width: 3, PBLeaves: false})
		out = append(out, mkFixture("hand-trailingempty-raw", st4, root4, content))
		// interior nodes that hold nothing but empty chunks, at the head of the file (declared size 0,
		// yet with children of their own) and in the middle
		st5 := store.New()
		root5, _ := handFile(st5, [][]byte{{}, {}, []byte("hello"), []byte(" wor"), []byte("ld")}, handFileOpts{Width: 2, PBLeaves: false})
		out = append(out, mkFixture("hand-leadingempty-interior-raw", st5, root5, content))
		// the same shape in a file that declares file sizes but no block sizes: an interior node of file
		// size 0 answers "how long are you" from its own block like any other
		st7 := store.New()
		root7, _ := handFile(st7, [][]byte{[]byte("hel"), []byte("lo "), {}, {}, []byte("wor"), []byte("ld"), {}, {}}, handFileOpts{Width: 2, PBLeaves: true, LeafType: 2, NoBlockSize: true})
		out = append(out, mkFixture("hand-emptyinterior-pb-nobs", st7, root7, content))
		st6 := store.New()
		root6, _ := handFile(st6, [][]byte{{}, {}, []byte("hel"), []byte("lo "), {}, {}, []byte("world")}, handFileOpts{Width: 2, PBLeaves: true, LeafType: 2})
		out = append(out, mkFixture("hand-emptyinterior-pb", st6, root6, content))
	}
	if thorough {
		build("default-width-349", 174, "size-1", 349, "rand")
		build("rabin", 3, "rabin-16-32-64", 700, "rand")
		build("five-level-w2", 2, "size-2", 45, "period3")
		build("single-big", 3, "size-4096", 3000, "rand")
	}
	return out
}

func (f *fileFixture) open(c *mon.Case, how int) (ipld.Node, largeBytes) {
	ls := f.St.LinkSystem(true)
	raw, err := loadRaw(ls, f.Root)
	if err != nil {
		c.Harness("fixture load: %v", err)
		return nil, nil
	}
	var n ipld.Node
	if how%2 == 0 {
		n, err = reify(ls, raw)
	} else {
		n, err = ls.KnownReifiers["unixfs-preload"](ipld.LinkContext{Ctx: bg}, raw, ls)
	}
	if err != nil {
		c.Violation("C04|open", "reify of fixture %s: %v", f.Name, err)
		return nil, nil
	}
	lb, ok := n.(largeBytes)
	if !ok {
		c.Violation("C04|open", "fixture %s reified to %T without AsLargeBytes", f.Name, n)
		return nil, nil
	}
	return n, lb
}

func region(pos int64, f *fileFixture) string {
	l := int64(len(f.Content))
	switch {
	case pos < 0:
		return "neg"
	case pos == 0:
		return "0"
	case pos == l:
		return "end"
	case pos > l:
		return "past"
	}
	i := sort.Search(len(f.Boundaries), func(i int) bool { return f.Boundaries[i] >= pos })
	if i < len(f.Boundaries) && f.Boundaries[i] == pos {
		return "bnd"
	}
	return "int"
}

// interestingTargets lists absolute positions worth seeking to.
func interestingTargets(r *rand.Rand, f *fileFixture) int64 {
	l := int64(len(f.Content))
	switch r.Intn(12) {
	case 0:
		return 0
	case 1:
		return l
	case 2:
		return l + 1 + int64(r.Intn(5))
	case 3:
		return -1 - int64(r.Intn(3))
	case 4:
		return -l - 1
	case 5:
		return 1 << 40
	case 6:
		return -(1 << 40)
	case 7, 8:
		b := f.Boundaries[r.Intn(len(f.Boundaries))]
		return b + int64(r.Intn(3)) - 1
	case 9:
		return l - 1
	}
	if l == 0 {
		return int64(r.Intn(3))
	}
	return int64(r.Intn(int(l) + 1))
}

type rsModel struct {
	pos int64
}

// runHistory drives one Seek/Read history over nReaders readers of one node
// and checks every step against the byte-slice model.
func runHistory(c *mon.Case, f *fileFixture, nReaders, steps int) {
	r := c.Rand()
	_, lb := f.open(c, r.Intn(2))
	if lb == nil {
		return
	}
	l := int64(len(f.Content))
	readers := make([]io.ReadSeeker, nReaders)
	models := make([]rsModel, nReaders)
	for i := range readers {
		rs, err := lb.AsLargeBytes()
		if err != nil {
			c.Violation("C04|AsLargeBytes", "%v", err)
			return
		}
		readers[i] = rs
	}
	var trace []string
	var sig []string
	hasSeek, hasRead := false, false
	fail := func(key, format string, args ...any) {
		t := trace
		if len(t) > 25 {
			t = t[len(t)-25:]
		}
		c.Violation(key, "fixture %s (len %d): %s; history tail: %s", f.Name, l, fmt.Sprintf(format, args...), strings.Join(t, " ; "))
	}
	for s := 0; s < steps; s++ {
		ri := r.Intn(nReaders)
		rd, m := readers[ri], &models[ri]
		ok := true
		switch op := r.Intn(10); {
		case op < 4: // Seek
			target := interestingTargets(r, f)
			whence := r.Intn(3)
			var off int64
			switch whence {
			case io.SeekStart:
				off = target
			case io.SeekCurrent:
				off = target - m.pos
			case io.SeekEnd:
				off = target - l
			}
			overflow := false
			if r.Intn(12) == 0 {
				// offsets at the ends of the int64 range, whatever the base
				off = []int64{math.MinInt64, math.MinInt64 + 1, -math.MaxInt64 + 1, math.MaxInt64, math.MaxInt64 - 1}[r.Intn(5)]
				base := []int64{0, m.pos, l}[whence]
				if off > 0 && base > math.MaxInt64-off {
					overflow = true
				} else {
					target = base + off
				}
				c.Count("extreme_seeks", 1)
			}
			hasSeek = true
			var got int64
			var err error
			step := fmt.Sprintf("r%d.Seek(%d,%d)", ri, off, whence)
			if !c.Guard(step, func() { got, err = rd.Seek(off, whence) }) {
				return
			}
			if overflow {
				// the position asked for does not fit an int64: only an error can be right
				trace = append(trace, fmt.Sprintf("%s=(%d,%v)", step, got, err))
				c.Count("steps", 1)
				c.Count("seeks", 1)
				if err == nil {
					fail("C04|seek-overflow|no-error", "Seek(%d, whence %d) from position %d asks for a position beyond the int64 range but returned (%d, nil)", off, whence, m.pos, got)
					return
				}
				var q int64
				if !c.Guard("Seek(0,Current) after failed seek", func() { q, err = rd.Seek(0, io.SeekCurrent) }) {
					return
				}
				if err != nil || q < 0 {
					fail("C04|neg-seek|unusable", "after a rejected seek, Seek(0,Current) returned (%d, %v)", q, err)
					return
				}
				m.pos = q
				continue
			}
			trace = append(trace, fmt.Sprintf("%s=(%d,%v)", step, got, err))
			c.Count("steps", 1)
			c.Count("seeks", 1)
			if len(sig) < 12 {
				sig = append(sig, "S"+region(target, f))
			}
			if target >= 0 {
				if err != nil || got != target {
					fail("C04|seek-result|"+[]string{"start", "current", "end"}[whence], "Seek(%d, whence %d) from position %d returned (%d, %v), model says (%d, nil)", off, whence, m.pos, got, err, target)
					return
				}
				m.pos = target
			} else {
				c.Count("neg_seeks", 1)
				if err == nil {
					fail("C04|neg-seek|no-error", "Seek(%d, whence %d) from position %d would land at %d < 0 but returned (%d, nil)", off, whence, m.pos, target, got)
					return
				}
				// the property does not fix where the reader is afterwards, only that
				// it reports a position from which later reads are consistent
				var q int64
				if !c.Guard("Seek(0,Current) after failed seek", func() { q, err = rd.Seek(0, io.SeekCurrent) }) {
					return
				}
				trace = append(trace, fmt.Sprintf("r%d.Seek(0,1)=(%d,%v)", ri, q, err))
				if err != nil || q < 0 {
					fail("C04|neg-seek|unusable", "after a rejected seek, Seek(0,Current) returned (%d, %v)", q, err)
					return
				}
				m.pos = q
			}
		case op < 9: // Read(k)
			ks := []int{0, 1, 2, 3, 5, 8, int(l), int(l) + 1, 64}
			k := ks[r.Intn(len(ks))]
			buf := make([]byte, k)
			for i := range buf {
				buf[i] = 0xEE
			}
			hasRead = true
			// optional interfaces consumers probe a ReadSeeker for (upload managers, zip/section readers,
			// bufio-less parsers): whatever the reader offers beyond Read and Seek has to serve the same
			// content and leave the Read/Seek position where the model has it
			if ra, isRA := rd.(io.ReaderAt); isRA && r.Intn(3) == 0 {
				at := interestingTargets(r, f)
				if at < 0 {
					at = 0
				}
				var n int
				var err error
				step := fmt.Sprintf("r%d.ReadAt(%d,@%d)", ri, k, at)
				if !c.Guard(step, func() { n, err = ra.ReadAt(buf, at) }) {
					return
				}
				trace = append(trace, fmt.Sprintf("%s=(%d,%v)", step, n, err))
				c.Count("steps", 1)
				c.Count("readat_calls", 1)
				var avail []byte
				if at < l {
					avail = f.Content[at:]
				}
				want := min(k, len(avail))
				if n != want || !bytes.Equal(buf[:n], avail[:n]) || (n < k && err == nil) || (n == k && err != nil && err != io.EOF) {
					fail("C04|readat", "ReadAt(len %d, off %d) returned (%d, %v) %x; the content there is %x (io.ReaderAt: n < len(p) comes with an error, n == len(p) with nil or EOF)", k, at, n, err, buf[:max(0, min(n, k))], avail[:want])
					return
				}
				continue // the model position is unchanged: ReadAt does not move the seek offset
			}
			if br, isBR := rd.(io.ByteReader); isBR && r.Intn(3) == 0 {
				var b byte
				var err error
				step := fmt.Sprintf("r%d.ReadByte()", ri)
				if !c.Guard(step, func() { b, err = br.ReadByte() }) {
					return
				}
				trace = append(trace, fmt.Sprintf("%s@%d=(%x,%v)", step, m.pos, b, err))
				c.Count("steps", 1)
				c.Count("readbyte_calls", 1)
				if m.pos >= l {
					if err != io.EOF {
						fail("C04|readbyte", "ReadByte at position %d (length %d) returned (%x, %v), want EOF", m.pos, l, b, err)
						return
					}
				} else if err != nil || b != f.Content[m.pos] {
					fail("C04|readbyte", "ReadByte at position %d returned (%x, %v), the content there is %x", m.pos, b, err, f.Content[m.pos])
					return
				} else {
					m.pos++
				}
				continue
			}
			var n int
			var err error
			step := fmt.Sprintf("r%d.Read(%d)", ri, k)
			if !c.Guard(step, func() { n, err = rd.Read(buf) }) {
				return
			}
			trace = append(trace, fmt.Sprintf("%s@%d=(%d,%v)", step, m.pos, n, err))
			c.Count("steps", 1)
			c.Count("reads", 1)
			if len(sig) < 12 {
				sig = append(sig, "R"+region(m.pos, f))
			}
			ok = checkRead(fail, f, m, k, n, err, buf)
		default: // macro step
			var err error
			var got []byte
			want := 1 + r.Intn(int(l)+3)
			if r.Intn(8) == 0 {
				// io.Copy into a destination that fails part-way: the bytes it accepted are the content
				// from the old position on, and afterwards the reader is where it says it is
				room := r.Intn(int(l) + 2)
				fw := &failingWriter{room: room}
				step := fmt.Sprintf("r%d.io.Copy(writer failing after %d bytes)", ri, room)
				var cerr error
				if !c.Guard(step, func() { _, cerr = io.Copy(fw, rd) }) {
					return
				}
				var exp []byte
				if m.pos < l {
					exp = f.Content[m.pos:]
				}
				c.Count("steps", 1)
				c.Count("failed_copies", 1)
				trace = append(trace, fmt.Sprintf("%s@%d=(%d,%v)", step, m.pos, len(fw.got), cerr))
				if len(fw.got) > len(exp) || !bytes.Equal(fw.got, exp[:len(fw.got)]) {
					fail("C04|macro-read", "%s at position %d delivered %d bytes that are not the content there", step, m.pos, len(fw.got))
					return
				}
				// the reader is used on without repositioning it: what it returns next must be the content
				// just before the position it reports afterwards (bytes read ahead of a failed write are
				// gone, so where exactly it stands is its own business - but it has to know)
				nb := make([]byte, 1+r.Intn(9))
				var nn int
				var nerr error
				if !c.Guard("Read after a failed copy", func() { nn, nerr = rd.Read(nb) }) {
					return
				}
				var q int64
				var qerr error
				if !c.Guard("Seek(0,Current) after a failed copy", func() { q, qerr = rd.Seek(0, io.SeekCurrent) }) {
					return
				}
				trace = append(trace, fmt.Sprintf("r%d.Read(%d)=(%d,%v) ; r%d.Seek(0,1)=(%d,%v)", ri, len(nb), nn, nerr, ri, q, qerr))
				if qerr != nil || (nerr != nil && nerr != io.EOF) || q-int64(nn) < m.pos+int64(len(fw.got)) || (q > l && q > m.pos) {
					fail("C04|position-after-copy", "%s from position %d (%d bytes accepted), then Read = (%d, %v): the reader reports position (%d, %v)", step, m.pos, len(fw.got), nn, nerr, q, qerr)
					return
				}
				if nn > 0 && (q > l || !bytes.Equal(nb[:nn], f.Content[q-int64(nn):q])) {
					fail("C04|read-bytes", "%s from position %d, then Read returned %x and the reader reports position %d: the content before that position is %x", step, m.pos, nb[:nn], q, f.Content[max64(0, min64(l, q)-int64(nn)):min64(l, q)])
					return
				}
				m.pos = q
				continue
			}
			mode := r.Intn(3)
			full := mode == 0
			step := fmt.Sprintf("r%d.ReadFull(%d)", ri, want)
			if mode == 1 {
				step = fmt.Sprintf("r%d.ReadAll()", ri)
			} else if mode == 2 {
				step = fmt.Sprintf("r%d.io.Copy()", ri) // uses io.WriterTo when the reader offers it
			}
			hasRead = true
			if !c.Guard(step, func() {
				switch mode {
				case 0:
					buf := make([]byte, want)
					var n int
					n, err = io.ReadFull(rd, buf)
					got = buf[:n]
				case 1:
					got, err = io.ReadAll(rd)
				default:
					var bb bytes.Buffer
					_, err = io.Copy(&bb, rd)
					got = bb.Bytes()
				}
			}) {
				return
			}
			trace = append(trace, fmt.Sprintf("%s@%d=(%d,%v)", step, m.pos, len(got), err))
			c.Count("steps", 1)
			if len(sig) < 12 {
				sig = append(sig, "M"+region(m.pos, f))
			}
			var exp []byte
			if m.pos < l {
				exp = f.Content[m.pos:]
			}
			var expErr error
			if full {
				if int64(want) <= int64(len(exp)) {
					exp = exp[:want]
				} else if len(exp) == 0 {
					expErr = io.EOF
				} else {
					expErr = io.ErrUnexpectedEOF
				}
			}
			if !bytes.Equal(got, exp) || err != expErr {
				fail("C04|macro-read", "%s at position %d returned %d bytes (sha %s), err %v; model: %d bytes (sha %s), err %v", step, m.pos, len(got), sum(got), err, len(exp), sum(exp), expErr)
				return
			}
			m.pos += int64(len(got))
		}
		if !ok {
			return
		}
	}
	c.Sample(map[string]any{"fixture": f.Name, "len": l, "readers": nReaders, "history": trace})
	c.Sig(fmt.Sprintf("%s|r%d|%s", f.Name, nReaders, strings.Join(sig, "")), hasSeek && hasRead)
}

// failingWriter accepts room bytes and then fails.
type failingWriter struct {
	room int
	got  []byte
}

func (w *failingWriter) Write(p []byte) (int, error) {
	if len(p) <= w.room {
		w.got = append(w.got, p...)
		w.room -= len(p)
		return len(p), nil
	}
	n := w.room
	w.got = append(w.got, p[:n]...)
	w.room = 0
	return n, fmt.Errorf("verif: destination full")
}

func checkRead(fail func(key, format string, args ...any), f *fileFixture, m *rsModel, k, n int, err error, buf []byte) bool {
	l := int64(len(f.Content))
	if n < 0 || n > k {
		fail("C04|read-count", "Read(%d) returned n=%d", k, n)
		return false
	}
	if err != nil && err != io.EOF {
		fail("C04|read-error", "Read(%d) at position %d returned error %v (no faults injected)", k, m.pos, err)
		return false
	}
	var avail []byte
	if m.pos < l {
		avail = f.Content[m.pos:]
	}
	if n > len(avail) || !bytes.Equal(buf[:n], avail[:n]) {
		fail("C04|read-bytes", "Read(%d) at position %d returned %x, content there is %x", k, m.pos, buf[:n], avail[:min(len(avail), n+2)])
		return false
	}
	// the buffer is the caller's: it is overwritten after every read, so a reader that handed out
	// its own storage (instead of copying) corrupts what it serves next
	for i := range buf[:n] {
		buf[i] ^= 0xA5
	}
	for _, b := range buf[n:] {
		if b != 0xEE {
			// writing scratch data beyond n is allowed by io.Reader; not judged
			break
		}
	}
	if k == 0 && err == io.EOF && len(avail) > 0 {
		fail("C04|early-eof", "Read of an empty buffer at position %d reported EOF although %d bytes remain", m.pos, len(avail))
		return false
	}
	if k >= 1 {
		if len(avail) == 0 {
			if n != 0 || err != io.EOF {
				fail("C04|eof", "Read(%d) at position %d (length %d) returned (%d, %v), want (0, EOF)", k, m.pos, l, n, err)
				return false
			}
		} else {
			if n == 0 {
				fail("C04|read-empty", "Read(%d) at position %d with %d bytes remaining returned (0, %v)", k, m.pos, len(avail), err)
				return false
			}
			if err == io.EOF && int64(n) != int64(len(avail)) {
				fail("C04|early-eof", "Read(%d) at position %d returned EOF with %d of %d remaining bytes", k, m.pos, n, len(avail))
				return false
			}
		}
	}
	m.pos += int64(n)
	return true
}

func TestC04(t *testing.T) {
	r := mon.Start(t, "C04")
	defer r.Close()
	fixtures := fileFixtures(newRand(r.SeedFor("fixtures")), !r.Quick())
	{
		// interior nodes that record fewer block sizes than they have links (the first child's only): the
		// others have to be measured; dag-pb leaves, with and without a declared file size, and raw leaves
		fr := newRand(r.SeedFor("fixtures-fewer"))
		for _, o := range []handFileOpts{
			{Width: 3, PBLeaves: true, LeafType: 2, FewerBlockSizes: true},
			{Width: 3, PBLeaves: true, LeafType: 2, FewerBlockSizes: true, NoFileSize: true},
			{Width: 2, PBLeaves: true, LeafType: 0, FewerBlockSizes: true},
			{Width: 3, PBLeaves: false, FewerBlockSizes: true},
		} {
			st := store.New()
			content := gen.Content(fr, "rand", 43)
			root, _ := handFile(st, splitChunks(content, 5), o)
			fixtures = append(fixtures, mkFixture("hand-"+handName(o), st, root, content))
		}
	}
	per := r.Pick(500, 20000)
	for _, f := range fixtures {
		f := f
		for i := 0; i < per; i++ {
			nr := 1 + i%3
			steps := 1 + (i*7)%40
			if i == per-1 {
				// one long-lived set of readers per shape: state that builds up over thousands of steps
				steps = r.Pick(1500, 20000)
			}
			r.Case(fmt.Sprintf("%s/h%d", f.Name, i), map[string]any{"fixture": f.Name, "len": len(f.Content), "readers": nr, "steps": steps, "root": f.Root.String()}, func(c *mon.Case) {
				runHistory(c, f, nr, steps)
			})
		}
	}
}

func max64(a, b int64) int64 {
	if a > b {
		return a
	}
	return b
}
