package props

import (
	"errors"
	"fmt"
	"sort"
	"strings"
	"unicode"

	"github.com/ipfs/go-cid"
	dagpb "github.com/ipld/go-codec-dagpb"
	"github.com/ipld/go-ipld-prime"
	"github.com/ipld/go-ipld-prime/datamodel"
	"github.com/ipld/go-ipld-prime/node/basicnode"
	"github.com/ipld/go-ipld-prime/schema"

	"verifharness/mon"
)

func isNotFound(err error) bool {
	var nsf schema.ErrNoSuchField
	return errors.As(err, &nsf)
}

type nativeDir interface {
	Lookup(key dagpb.String) dagpb.Link
}

func asCid(n ipld.Node) (cid.Cid, error) {
	if n == nil {
		return cid.Undef, fmt.Errorf("nil node")
	}
	l, err := n.AsLink()
	if err != nil {
		return cid.Undef, err
	}
	return linkCid(l), nil
}

// probesFor derives non-member probe names from a member name.
func probesFor(name string, padLens []int) []string {
	out := []string{name + "x", name + " ", "x" + name}
	if len(name) > 1 {
		out = append(out, name[1:], name[:len(name)-1])
	}
	rs := []rune(name)
	for i, r := range rs {
		if unicode.IsLower(r) {
			rs[i] = unicode.ToUpper(r)
			out = append(out, string(rs))
			break
		} else if unicode.IsUpper(r) {
			rs[i] = unicode.ToLower(r)
			out = append(out, string(rs))
			break
		}
	}
	for _, p := range padLens {
		// the member's own shard-prefixed forms and the bare prefixes
		out = append(out, strings.Repeat("0", p)+name, strings.Repeat("F", p)+name, strings.Repeat("0", p), fmt.Sprintf("%0*X", p, 10))
	}
	return out
}

// checkDirAsMap is the C02 monitor: the reified directory node must behave as
// the Go map `model`. extraProbes are additional names that must be absent
// unless they are in the model.
func checkDirAsMap(c *mon.Case, prop string, node ipld.Node, model map[string]cid.Cid, extraProbes []string, padLens []int, maxMemberLookups int) {
	if node.Kind() != ipld.Kind_Map {
		c.Violation(prop+"|dir-kind", "directory node kind is %v", node.Kind())
		return
	}
	names := make([]string, 0, len(model))
	for n := range model {
		names = append(names, n)
	}
	sort.Strings(names)
	// an iterator that is started on the cold node, advanced a few steps and then left alone while the
	// node is used for everything else; it is resumed at the very end
	var early ipld.MapIterator
	earlySeen := map[string]int{}
	c.Guard("MapIterator (started early)", func() {
		early = node.MapIterator()
		for i := 0; early != nil && i < 3 && !early.Done(); i++ {
			if k, _, err := early.Next(); err == nil && k != nil {
				ks, _ := k.AsString()
				earlySeen[ks]++
			}
		}
	})
	defer func() {
		if early == nil {
			return
		}
		c.Guard("MapIterator (resumed late)", func() {
			for i := 0; !early.Done() && i < len(model)+16; i++ {
				k, v, err := early.Next()
				if err != nil {
					c.Violation(prop+"|iter-error", "an iterator started before and resumed after all other use of the node: Next: %v", err)
					return
				}
				ks, _ := k.AsString()
				if got, e := asCid(v); e != nil || !got.Equals(model[ks]) {
					c.Violation(prop+"|iter-wrong-link", "an iterator resumed after other use of the node yielded %q -> %v", ks, got)
					return
				}
				earlySeen[ks]++
			}
			c.Count("resumed_iterators", 1)
			for _, name := range names {
				if earlySeen[name] != 1 {
					c.Violation(prop+"|iter-multiplicity", "an iterator started before and resumed after all other use of the node yielded entry %q %d times", name, earlySeen[name])
					return
				}
			}
		})
	}()
	c.Guard("Length", func() {
		if l := node.Length(); l != int64(len(model)) {
			c.Violation(prop+"|length", "Length() = %d, model has %d entries", l, len(model))
		}
	})
	step := 1
	if maxMemberLookups > 0 && len(names) > maxMemberLookups {
		step = len(names)/maxMemberLookups + 1
	}
	for i := 0; i < len(names); i += step {
		name := names[i]
		c.Guard("LookupByString(member)", func() {
			v, err := node.LookupByString(name)
			c.Count("lookups_member", 1)
			if err != nil {
				c.Violation(prop+"|member-not-found", "LookupByString(%q) of a member failed: %v", name, err)
				return
			}
			got, err := asCid(v)
			if err != nil || !got.Equals(model[name]) {
				c.Violation(prop+"|member-wrong-link", "LookupByString(%q) = %v (%v), want %v", name, got, err, model[name])
			}
		})
		// the other lookup entry points must give the same answer (a sample of the members)
		if (i/step)%7 == 0 {
			for ei, f := range []func() (ipld.Node, error){
				func() (ipld.Node, error) { return node.LookupBySegment(datamodel.PathSegmentOfString(name)) },
				func() (ipld.Node, error) { return node.LookupByNode(basicnode.NewString(name)) },
				func() (ipld.Node, error) { return node.LookupByNode(pbString(name)) },
			} {
				ei, f := ei, f
				c.Guard("lookup entry point", func() {
					v, err := f()
					c.Count("lookups_member", 1)
					got, e2 := cid.Undef, error(nil)
					if err == nil {
						got, e2 = asCid(v)
					}
					if err != nil || e2 != nil || !got.Equals(model[name]) {
						c.Violation(fmt.Sprintf("%s|member-entry-point-%d", prop, ei), "lookup entry point %d (0=BySegment 1=ByNode(string) 2=ByNode(dagpb.String)) of member %q returned (%v, %v/%v), want %v", ei, name, got, err, e2, model[name])
					}
				})
			}
		}
	}
	probeN := 0
	probe := func(p string) {
		if _, ok := model[p]; ok {
			return
		}
		c.Guard("LookupByString(non-member)", func() {
			v, err := node.LookupByString(p)
			c.Count("lookups_nonmember", 1)
			if err == nil {
				got, _ := asCid(v)
				c.Violation(prop+"|nonmember-found", "LookupByString(%q) of a non-member returned %v", p, got)
			} else if !isNotFound(err) {
				c.Violation(prop+"|nonmember-other-error", "LookupByString(%q) of a non-member returned %T %v instead of not-found", p, err, err)
			}
		})
		probeN++
		if probeN%5 == 0 {
			for ei, f := range []func() (ipld.Node, error){
				func() (ipld.Node, error) { return node.LookupBySegment(datamodel.PathSegmentOfString(p)) },
				func() (ipld.Node, error) { return node.LookupByNode(basicnode.NewString(p)) },
				func() (ipld.Node, error) { return node.LookupByNode(pbString(p)) },
			} {
				ei, f := ei, f
				c.Guard("lookup entry point (non-member)", func() {
					_, err := f()
					c.Count("lookups_nonmember", 1)
					if err == nil || !isNotFound(err) {
						c.Violation(fmt.Sprintf("%s|nonmember-entry-point-%d", prop, ei), "lookup entry point %d (0=BySegment 1=ByNode(string) 2=ByNode(dagpb.String)) of non-member %q returned err=%v, want not-found", ei, p, err)
					}
				})
			}
		}
	}
	pstep := 1
	if len(names) > 300 {
		pstep = len(names) / 300
	}
	for i := 0; i < len(names); i += pstep {
		for _, p := range probesFor(names[i], padLens) {
			probe(p)
		}
	}
	probe("")
	for _, p := range []string{"Links", "Data", "Hash", "Name", "Tsize", "0", "1"} {
		probe(p)
	}
	for _, p := range extraProbes {
		probe(p)
	}
	// iteration: every entry exactly once, un-prefixed name, right link
	c.Guard("MapIterator", func() {
		it := node.MapIterator()
		if it == nil {
			c.Violation(prop+"|nil-iterator", "MapIterator() is nil on a map-kind node")
			return
		}
		seen := map[string]int{}
		n := 0
		type kv struct {
			k string
			v ipld.Node
		}
		var kept []kv
		defer func() {
			// the value nodes handed out must still denote their own entry after the iteration moved on
			for _, p := range kept {
				if got, err := asCid(p.v); err != nil || !got.Equals(model[p.k]) {
					c.Violation(prop+"|iter-kept-value-changed", "the value node yielded for %q, inspected after the iteration ended, is %v (%v), want %v", p.k, got, err, model[p.k])
					break
				}
			}
		}()
		for !it.Done() {
			k, v, err := it.Next()
			if err != nil {
				c.Violation(prop+"|iter-error", "MapIterator.Next: %v after %d entries", err, n)
				return
			}
			if ks, e := k.AsString(); e == nil && len(kept) < 2000 {
				if _, ok := model[ks]; ok {
					kept = append(kept, kv{ks, v})
				}
			}
			n++
			if n > len(model)+16 {
				c.Violation(prop+"|iter-too-long", "iterator yielded more than %d entries for a model of %d", n, len(model))
				return
			}
			ks, err := k.AsString()
			if err != nil {
				c.Violation(prop+"|iter-key", "key AsString: %v", err)
				continue
			}
			got, err := asCid(v)
			want, ok := model[ks]
			if !ok {
				c.Violation(prop+"|iter-unknown-name", "iterator yielded name %q which is not in the model", ks)
				continue
			}
			if err != nil || !got.Equals(want) {
				c.Violation(prop+"|iter-wrong-link", "iterator yielded %q -> %v (%v), want %v", ks, got, err, want)
			}
			seen[ks]++
		}
		c.Count("entries_iterated", int64(n))
		for _, name := range names {
			if seen[name] != 1 {
				c.Violation(prop+"|iter-multiplicity", "entry %q yielded %d times", name, seen[name])
				break
			}
		}
	})
	type nativeIter interface {
		Next() (dagpb.String, dagpb.Link)
		Done() bool
	}
	c.Guard("native Iterator", func() {
		var it nativeIter
		switch d := node.(type) {
		case interface{ Iterator() *iterT }:
			it = d.Iterator()
		}
		if it == nil {
			return
		}
		seen := map[string]int{}
		n := 0
		for !it.Done() {
			k, v := it.Next()
			n++
			if n > len(model)+16 {
				c.Violation(prop+"|native-iter-too-long", "native iterator yielded more than %d entries", n)
				return
			}
			if k == nil || v == nil {
				c.Violation(prop+"|native-iter-nil", "native iterator returned nil before Done (entry %d of %d)", n, len(model))
				return
			}
			want, ok := model[k.String()]
			if !ok || !linkCid(v.Link()).Equals(want) {
				c.Violation(prop+"|native-iter-wrong", "native iterator yielded %q -> %v, model has %v (present %v)", k.String(), v.Link(), want, ok)
			}
			seen[k.String()]++
		}
		c.Count("entries_iterated_native", int64(n))
		if n != len(model) {
			c.Violation(prop+"|native-iter-count", "native iterator yielded %d entries, model has %d", n, len(model))
		}
	})
}

// runDirHistory drives a random history of read-only operations on ONE directory node - lengths,
// member and non-member lookups through all entry points, several iterators that are created,
// advanced a few steps at a time, polled with Done, interleaved with each other and sometimes
// abandoned - and checks every answer against the Go map. Whatever happened before, every operation
// answers as it does on a fresh node.
func runDirHistory(c *mon.Case, prop string, node ipld.Node, model map[string]cid.Cid, padLens []int, steps int) {
	r := c.Rand()
	names := make([]string, 0, len(model))
	for n := range model {
		names = append(names, n)
	}
	sort.Strings(names)
	type nativeIter interface {
		Next() (dagpb.String, dagpb.Link)
		Done() bool
	}
	type itState struct {
		m    ipld.MapIterator
		n    nativeIter
		seen map[string]bool
		born int
	}
	var its []*itState
	var trace []string
	fail := func(key, format string, args ...any) {
		t := trace
		if len(t) > 20 {
			t = t[len(t)-20:]
		}
		c.Violation(prop+"|history|"+key, "%s; history tail: %s", fmt.Sprintf(format, args...), strings.Join(t, " ; "))
	}
	advance := func(it *itState, k int) bool {
		for i := 0; i < k; i++ {
			var done bool
			if it.m != nil {
				done = it.m.Done()
			} else {
				done = it.n.Done()
			}
			if done {
				if len(it.seen) != len(model) {
					fail("iter-short", "an iterator created at step %d is done after %d of %d entries", it.born, len(it.seen), len(model))
					return false
				}
				return true
			}
			var ks string
			var got cid.Cid
			if it.m != nil {
				k, v, err := it.m.Next()
				if err != nil {
					fail("iter-error", "iterator created at step %d: Next after %d entries: %v", it.born, len(it.seen), err)
					return false
				}
				ks, _ = k.AsString()
				got, _ = asCid(v)
			} else {
				k, v := it.n.Next()
				if k == nil || v == nil {
					fail("iter-error", "native iterator created at step %d returned nil after %d entries although not done", it.born, len(it.seen))
					return false
				}
				ks, got = k.String(), linkCid(v.Link())
			}
			want, ok := model[ks]
			if !ok || !got.Equals(want) {
				fail("iter-wrong", "iterator created at step %d yielded %q -> %v, model has %v (present %v)", it.born, ks, got, want, ok)
				return false
			}
			if it.seen[ks] {
				fail("iter-twice", "iterator created at step %d yielded %q twice", it.born, ks)
				return false
			}
			it.seen[ks] = true
			c.Count("history_entries_iterated", 1)
		}
		return true
	}
	ok := true
	for s := 0; s < steps && ok; s++ {
		c.Count("history_steps", 1)
		switch op := r.Intn(12); {
		case op == 0:
			trace = append(trace, "Length")
			c.Guard("Length", func() {
				if l := node.Length(); l != int64(len(model)) {
					fail("length", "Length() = %d at step %d, the directory has %d entries", l, s, len(model))
					ok = false
				}
			})
		case op <= 3 && len(names) > 0:
			name := names[r.Intn(len(names))]
			ep := r.Intn(5)
			trace = append(trace, fmt.Sprintf("lookup%d(%q)", ep, name))
			c.Guard("lookup member", func() {
				var v ipld.Node
				var err error
				switch ep {
				case 0:
					v, err = node.LookupByString(name)
				case 1:
					v, err = node.LookupBySegment(datamodel.PathSegmentOfString(name))
				case 2:
					v, err = node.LookupByNode(basicnode.NewString(name))
				case 3:
					v, err = node.LookupByNode(pbString(name))
				default:
					if nl, isN := node.(interface{ Lookup(dagpb.String) dagpb.Link }); isN {
						if l := nl.Lookup(pbString(name)); l == nil {
							err = fmt.Errorf("native Lookup returned nil")
						} else {
							v = l
						}
					} else {
						v, err = node.LookupByString(name)
					}
				}
				if err != nil {
					fail("member", "lookup (entry point %d) of member %q at step %d failed: %v", ep, name, s, err)
					ok = false
					return
				}
				if got, e := asCid(v); e != nil || !got.Equals(model[name]) {
					fail("member", "lookup (entry point %d) of member %q at step %d returned %v (%v), want %v", ep, name, s, got, e, model[name])
					ok = false
				}
			})
		case op <= 5:
			p := fmt.Sprintf("absent-%x", r.Uint32())
			if len(names) > 0 && r.Intn(2) == 0 {
				ps := probesFor(names[r.Intn(len(names))], padLens)
				p = ps[r.Intn(len(ps))]
			}
			if _, isMember := model[p]; isMember {
				continue
			}
			ep := r.Intn(4)
			trace = append(trace, fmt.Sprintf("lookup%d(non-member %q)", ep, p))
			c.Guard("lookup non-member", func() {
				var err error
				switch ep {
				case 0:
					_, err = node.LookupByString(p)
				case 1:
					_, err = node.LookupBySegment(datamodel.PathSegmentOfString(p))
				case 2:
					_, err = node.LookupByNode(basicnode.NewString(p))
				default:
					_, err = node.LookupByNode(pbString(p))
				}
				if err == nil || !isNotFound(err) {
					fail("nonmember", "lookup (entry point %d) of non-member %q at step %d returned err=%v, want not-found", ep, p, s, err)
					ok = false
				}
			})
		case op == 6 && len(its) < 4:
			it := &itState{seen: map[string]bool{}, born: s}
			c.Guard("new iterator", func() {
				if d, isN := node.(interface{ Iterator() *iterT }); isN && r.Intn(3) == 0 {
					it.n = d.Iterator()
				} else {
					it.m = node.MapIterator()
				}
			})
			if it.m == nil && it.n == nil {
				fail("nil-iterator", "no iterator at step %d", s)
				return
			}
			trace = append(trace, fmt.Sprintf("newIter#%d(native=%v)", s, it.n != nil))
			its = append(its, it)
			c.Count("history_iterators", 1)
		case op <= 9 && len(its) > 0:
			it := its[r.Intn(len(its))]
			k := 1 + r.Intn(6)
			if r.Intn(6) == 0 {
				k = len(model) + 2
			}
			trace = append(trace, fmt.Sprintf("iter#%d.advance(%d)", it.born, k))
			c.Guard("advance iterator", func() { ok = advance(it, k) })
		case op == 10 && len(its) > 0:
			// poll Done a few times: asking is not advancing
			it := its[r.Intn(len(its))]
			trace = append(trace, fmt.Sprintf("iter#%d.Done()x3", it.born))
			c.Guard("poll Done", func() {
				for i := 0; i < 3; i++ {
					var d bool
					if it.m != nil {
						d = it.m.Done()
					} else {
						d = it.n.Done()
					}
					if d != (len(it.seen) == len(model)) {
						fail("done", "iterator created at step %d reports Done()=%v after %d of %d entries", it.born, d, len(it.seen), len(model))
						ok = false
						return
					}
				}
			})
		case op == 11 && len(its) > 1:
			i := r.Intn(len(its))
			trace = append(trace, fmt.Sprintf("iter#%d.abandon", its[i].born))
			its = append(its[:i], its[i+1:]...)
			c.Count("history_iterators_abandoned", 1)
		}
	}
	// every iterator still alive is run to its end
	for _, it := range its {
		if !ok {
			break
		}
		trace = append(trace, fmt.Sprintf("iter#%d.finish", it.born))
		c.Guard("finish iterator", func() { ok = advance(it, len(model)+2) })
	}
	c.Count("histories", 1)
}
