package props

import (
	"bytes"
	"fmt"
	"io"
	"math/rand"
	"net"
	"os"
	"path/filepath"
	"runtime"
	"sort"
	"strings"
	"syscall"
	"testing"

	"github.com/ipfs/go-cid"
	"github.com/ipfs/go-unixfsnode/data/builder"
	"github.com/ipld/go-ipld-prime"
	"github.com/ipld/go-ipld-prime/datamodel"

	"verifharness/gen"
	"verifharness/mon"
	"verifharness/store"
)

type fsStats struct {
	files, dirs, symlinks, emptyDirs, emptyFiles int
	symKinds                                     map[string]bool
	depth                                        int
	specialPerms                                 int
	hardLinks                                    int
}

var fsNames = []string{"a", "b.txt", "with space", "ünïcödé", "日本語", "%41", "0", "07", "FF", "0Aname", "UPPER", "upper", ".hidden", "..two", "tab\tname", "x-😀", "trailing.", "-dash", "~tilde", "a%2Fb", "photos [2019]", "back\\slash", "star*", "q?", "[", "[a-z]", "{a,b}"}

// makeFSTree materialises a random tree under dir and returns what it made.
func makeFSTree(r *rand.Rand, dir string, depth int, st *fsStats, budget *int) {
	if depth > st.depth {
		st.depth = depth
	}
	n := r.Intn(7)
	if depth == 0 {
		n = 3 + r.Intn(6)
	}
	used := map[string]bool{}
	for i := 0; i < n && *budget > 0; i++ {
		name := fsNames[r.Intn(len(fsNames))]
		if r.Intn(3) == 0 {
			name = fmt.Sprintf("e%d-%x", i, r.Uint32())
		}
		if used[name] {
			continue
		}
		used[name] = true
		*budget--
		p := filepath.Join(dir, name)
		switch k := r.Intn(10); {
		case k < 4:
			var content []byte
			switch r.Intn(6) {
			case 0:
				st.emptyFiles++
			case 1:
				content = gen.Content(r, "rand", 262144+r.Intn(1000))
			case 2:
				content = gen.Content(r, "zero", 1+r.Intn(5000))
				if r.Intn(3) == 0 {
					// a sparse-looking file: whole chunks of zeros and a zero tail that ends off the chunk grid
					content = gen.Content(r, "zero", 262144*(1+r.Intn(2))+1+r.Intn(100000))
				}
			default:
				content = gen.Content(r, "rand", 1+r.Intn(2000))
			}
			if err := os.WriteFile(p, content, 0o644); err != nil {
				panic(err)
			}
			if r.Intn(4) == 0 {
				// a second (and third) name for the same file in the same directory: hard links
				for h := 0; h < 1+r.Intn(2); h++ {
					ln := fmt.Sprintf("hardlink%d-%x", h, r.Uint32())
					if !used[ln] && os.Link(p, filepath.Join(dir, ln)) == nil {
						used[ln] = true
						st.files++
						st.hardLinks++
					}
				}
			}
			if r.Intn(5) == 0 {
				// setuid / setgid / sticky, unusual permission sets
				os.Chmod(p, []os.FileMode{0o755 | os.ModeSetuid, 0o644 | os.ModeSetgid, 0o600 | os.ModeSticky, 0o000, 0o777}[r.Intn(5)])
				st.specialPerms++
			}
			st.files++
		case k < 7 && depth < 3:
			if err := os.Mkdir(p, 0o755); err != nil {
				panic(err)
			}
			st.dirs++
			if r.Intn(4) == 0 {
				os.Chmod(p, []os.FileMode{0o2775&^0o2000 | os.ModeSetgid, 0o777 | os.ModeSticky, 0o700, 0o755 | os.ModeSetuid}[r.Intn(4)])
				st.specialPerms++
			}
			before := *budget
			makeFSTree(r, p, depth+1, st, budget)
			if before == *budget {
				st.emptyDirs++
			}
		case k < 7:
			if err := os.Mkdir(p, 0o755); err != nil {
				panic(err)
			}
			st.dirs++
			st.emptyDirs++
		default:
			targets := map[string]string{
				"relative": "a", "relative-up": "../b.txt", "absolute": "/etc/hostname", "dangling": "no/such/target", "to-dir": ".",
				"unclean-dot": "./x", "unclean-dotdot": "a/../b", "unclean-trailing": "dir/", "unclean-double": "a//b", "abs-unclean": "/x/../y/", "with-space": "with space", "unicode": "日本語/ü",
			}
			keys := make([]string, 0, len(targets))
			for k := range targets {
				keys = append(keys, k)
			}
			sort.Strings(keys)
			kind := keys[r.Intn(len(keys))]
			if err := os.Symlink(targets[kind], p); err != nil {
				panic(err)
			}
			st.symlinks++
			st.symKinds[kind] = true
		}
	}
}

// compareFS walks the imported DAG through Reify and compares it with disk.
func compareFS(c *mon.Case, st *store.Store, ls *ipld.LinkSystem, root cid.Cid, path string) {
	info, err := os.Lstat(path)
	if err != nil {
		c.Harness("lstat %s: %v", path, err)
		return
	}
	w := walkerFor(st)
	on, err := w.Node(root)
	if err != nil {
		c.Violation("C18|missing-block", "%s: block %s of the imported DAG is not stored: %v", path, root, err)
		return
	}
	c.Count("entries_compared", 1)
	switch {
	case info.Mode()&os.ModeSymlink != 0:
		want, _ := os.Readlink(path)
		if on.FS == nil || on.FS.GetType() != 4 {
			c.Violation("C18|symlink-kind", "%s is a symlink on disk; the DAG node has UnixFS type %v", path, on.FS.GetType())
			return
		}
		if string(on.FS.Data) != want {
			c.Violation("C18|symlink-target", "%s: symlink target on disk %q, in the DAG %q", path, want, on.FS.Data)
		}
		c.Count("symlinks_compared", 1)
	case info.IsDir():
		node, err := loadReified(ls, root)
		if err != nil {
			c.Violation("C18|reify", "%s: %v", path, err)
			return
		}
		if node.Kind() != datamodel.Kind_Map {
			c.Violation("C18|dir-kind", "%s is a directory on disk; reified kind %v", path, node.Kind())
			return
		}
		des, err := os.ReadDir(path)
		if err != nil {
			c.Harness("readdir: %v", err)
			return
		}
		want := map[string]bool{}
		for _, de := range des {
			want[de.Name()] = true
		}
		got := map[string]cid.Cid{}
		it := node.MapIterator()
		for i := 0; !it.Done() && i < len(des)+10; i++ {
			k, v, err := it.Next()
			if err != nil {
				c.Violation("C18|dir-iteration", "%s: %v", path, err)
				return
			}
			ks, _ := k.AsString()
			cc, _ := asCid(v)
			if _, dup := got[ks]; dup {
				c.Violation("C18|dir-names", "%s: name %q listed twice", path, ks)
			}
			got[ks] = cc
		}
		if len(got) != len(want) {
			c.Violation("C18|dir-names", "%s: %d names on disk, %d in the DAG", path, len(want), len(got))
		}
		for n := range want {
			if _, ok := got[n]; !ok {
				c.Violation("C18|dir-names", "%s: on-disk name %q is missing from the DAG", path, n)
				break
			}
		}
		for n := range got {
			if !want[n] {
				c.Violation("C18|dir-names", "%s: DAG lists %q which is not on disk", path, n)
				break
			}
		}
		if on.FS != nil && on.FS.GetType() == 5 {
			c.Count("sharded_dirs", 1)
		}
		c.Count("dirs_compared", 1)
		for n := range want {
			if cc, ok := got[n]; ok {
				// lookup by name agrees with iteration
				if v, err := node.LookupByString(n); err != nil {
					c.Violation("C18|dir-lookup", "%s: LookupByString(%q): %v", path, n, err)
				} else if lc, _ := asCid(v); !lc.Equals(cc) {
					c.Violation("C18|dir-lookup", "%s: LookupByString(%q) = %v, iteration %v", path, n, lc, cc)
				}
				compareFS(c, st, ls, cc, filepath.Join(path, n))
			}
		}
	case info.Mode().IsRegular():
		want, err := os.ReadFile(path)
		if err != nil {
			c.Harness("readfile: %v", err)
			return
		}
		node, err := loadReified(ls, root)
		if err != nil {
			c.Violation("C18|reify", "%s: %v", path, err)
			return
		}
		if node.Kind() != datamodel.Kind_Bytes {
			c.Violation("C18|file-kind", "%s is a regular file on disk; reified kind %v", path, node.Kind())
			return
		}
		got, err := node.AsBytes()
		if err != nil || !bytes.Equal(got, want) {
			c.Violation("C18|file-bytes", "%s: %d bytes on disk, DAG reads %d bytes (err %v, first difference %d)", path, len(want), len(got), err, firstDiff(got, want))
		}
		c.Count("files_compared", 1)
	default:
		c.Violation("C18|special-accepted", "%s is neither file, directory nor symlink, yet it was imported", path)
	}
}

func TestC18(t *testing.T) {
	r := mon.Start(t, "C18")
	defer r.Close()
	tmpRoot := func(c *mon.Case) string {
		dir, err := os.MkdirTemp("", "verif-c18-")
		if err != nil {
			panic(err)
		}
		c.Run().T.Cleanup(func() { os.RemoveAll(dir) })
		return dir
	}
	for i := 0; i < r.Pick(48, 1000); i++ {
		i := i
		r.Case(fmt.Sprintf("tree/%d", i), map[string]any{"tree": i}, func(c *mon.Case) {
			dir := tmpRoot(c)
			defer os.RemoveAll(dir)
			root := filepath.Join(dir, "root")
			os.Mkdir(root, 0o755)
			stt := &fsStats{symKinds: map[string]bool{}}
			budget := 40 + c.Rand().Intn(160)
			makeFSTree(c.Rand(), root, 0, stt, &budget)
			st := store.New()
			var l ipld.Link
			var err error
			if !c.Guard("BuildUnixFSRecursive", func() { l, _, err = builder.BuildUnixFSRecursive(root, st.LinkSystem(false)) }) {
				return
			}
			if err != nil {
				c.Violation("C18|import-error", "tree of %d files, %d dirs, %d symlinks: %v", stt.files, stt.dirs, stt.symlinks, err)
				return
			}
			c.Count("trees", 1)
			c.Count("special_permission_entries", int64(stt.specialPerms))
			c.Count("hard_linked_names", int64(stt.hardLinks))
			compareFS(c, st, st.LinkSystem(false), linkCid(l), root)
			// the same tree named by other spellings of its root path
			par, base := filepath.Dir(root), filepath.Base(root)
			spellings := []string{root + "/", par + "/./" + base, par + "//" + base, root + "/."}
			if ents, err := os.ReadDir(root); err == nil {
				for _, e := range ents {
					if e.IsDir() {
						spellings = append(spellings, root+"/"+e.Name()+"/..")
						break
					}
				}
			}
			// ... and through a symbolic link followed by "..", which the operating system resolves
			// by following the link first (so that lexical cleaning names another place)
			if os.MkdirAll(filepath.Join(dir, "real2", "inner"), 0o755) == nil && os.Symlink(filepath.Join("real2", "inner"), filepath.Join(dir, "hop")) == nil {
				spellings = append(spellings, filepath.Dir(root)+"/hop/../../"+base)
			}
			// ... through a link to one of its sub-directories followed by ".." (the root ends in ".."),
			// and as a symbolic link to the tree written with a trailing separator (which names the
			// directory, where the bare link would name the link)
			if ents, err := os.ReadDir(root); err == nil {
				for _, e := range ents {
					if e.IsDir() {
						if os.Symlink(filepath.Join("root", e.Name()), filepath.Join(dir, "hop2")) == nil {
							spellings = append(spellings, filepath.Join(dir, "hop2")+"/..")
						}
						break
					}
				}
			}
			if os.Symlink("root", filepath.Join(dir, "rootlink")) == nil {
				spellings = append(spellings, filepath.Join(dir, "rootlink")+"/")
			}
			spelled := spellings[i%len(spellings)]
			var l3 ipld.Link
			var err3 error
			if c.Guard("BuildUnixFSRecursive (other spelling of the root)", func() { l3, _, err3 = builder.BuildUnixFSRecursive(spelled, store.New().LinkSystem(false)) }) {
				c.Count("root_spellings", 1)
				if err3 != nil {
					c.Violation("C18|import-error", "the tree imports as %q but is refused as %q: %v", root, spelled, err3)
				} else if l3 == nil || l3.String() != l.String() {
					c.Violation("C18|root-spelling", "the tree imported as %q gives %v, as %q it gives %v", root, l, spelled, l3)
				}
			}
			kinds := make([]string, 0)
			for k := range stt.symKinds {
				kinds = append(kinds, strings.Split(k, "-")[0])
			}
			sort.Strings(kinds)
			c.Sig(fmt.Sprintf("depth%d|sym[%s]|emptydir=%v|emptyfile=%v", stt.depth, strings.Join(uniqStrings(kinds), ","), stt.emptyDirs > 0, stt.emptyFiles > 0), stt.files+stt.dirs+stt.symlinks >= 2)
			c.Sample(map[string]any{"files": stt.files, "dirs": stt.dirs, "symlinks": stt.symlinks, "empty_dirs": stt.emptyDirs, "blocks": st.Len()})
			// the same tree with one special file somewhere must be rejected
			var dirs []string
			filepath.Walk(root, func(p string, info os.FileInfo, err error) error {
				if err == nil && info.IsDir() {
					dirs = append(dirs, p)
				}
				return nil
			})
			where := dirs[c.Rand().Intn(len(dirs))]
			kind := "fifo"
			sp := filepath.Join(where, "zz-special")
			var cleanup func()
			if i%4 == 2 {
				// a character device (the null device's numbers) or, next time, a block device; creating
				// device nodes needs a privilege: without it the case falls back to a fifo
				mode, dev := uint32(syscall.S_IFCHR|0o644), 1<<8|3
				kind = "chardev"
				if i%8 == 6 {
					mode, dev, kind = uint32(syscall.S_IFBLK|0o644), 7<<8|0, "blockdev"
				}
				if err := syscall.Mknod(sp, mode, dev); err != nil {
					kind = "fifo"
					c.Count("mknod_not_permitted", 1)
					if err := syscall.Mkfifo(sp, 0o644); err != nil {
						c.Harness("mkfifo: %v", err)
						return
					}
				}
			} else if i%2 == 0 {
				if err := syscall.Mkfifo(sp, 0o644); err != nil {
					c.Harness("mkfifo: %v", err)
					return
				}
			} else {
				kind = "socket"
				// unix socket paths are limited to ~108 bytes: bind via a short relative path
				old, _ := os.Getwd()
				if err := os.Chdir(where); err != nil {
					c.Harness("chdir: %v", err)
					return
				}
				ln, err := net.Listen("unix", "zz-special")
				os.Chdir(old)
				if err != nil {
					c.Harness("unix socket: %v", err)
					return
				}
				cleanup = func() { ln.Close() }
			}
			st2 := store.New()
			var l2 ipld.Link
			var err2 error
			c.Guard("BuildUnixFSRecursive with special file", func() { l2, _, err2 = builder.BuildUnixFSRecursive(root, st2.LinkSystem(false)) })
			if cleanup != nil {
				cleanup()
			}
			c.Count("rejected_trees", 1)
			if err2 == nil {
				c.Violation("C18|special-accepted|"+kind, "a tree containing a %s at %s was imported without error (link %v)", kind, strings.TrimPrefix(sp, root), l2)
			}
			c.Sig("negative|"+kind+fmt.Sprintf("|depth%d", strings.Count(strings.TrimPrefix(where, root), "/")), true)
		})
	}
	// directories around the auto-shard threshold, and a big one
	sizes := []int{1024, 1025}
	if !r.Quick() {
		sizes = append(sizes, 1023, 1026, 5000)
	}
	for _, n := range sizes {
		n := n
		r.Case(fmt.Sprintf("bigdir/%d", n), map[string]any{"entries": n, "name_len": 220}, func(c *mon.Case) {
			dir := tmpRoot(c)
			defer os.RemoveAll(dir)
			root := filepath.Join(dir, "big")
			os.Mkdir(root, 0o755)
			for i := 0; i < n; i++ {
				b := bytes.Repeat([]byte{'n'}, 220)
				if i%97 == 3 {
					b = bytes.Repeat([]byte{'m'}, 255-i%2) // the longest names a file system allows (255 and 254 bytes)
				}
				copy(b, fmt.Sprintf("%06d-", i))
				var err error
				switch i % 50 {
				case 0:
					err = os.Mkdir(filepath.Join(root, string(b)), 0o755)
				case 1:
					err = os.Symlink("t", filepath.Join(root, string(b)))
				default:
					err = os.WriteFile(filepath.Join(root, string(b)), []byte(fmt.Sprint(i)), 0o644)
				}
				if err != nil {
					c.Harness("fixture: %v", err)
					return
				}
			}
			// file names whose murmur3 hashes share 56 and 60 bits: the sharded result needs its deepest levels
			crafted := 0
			for _, shared := range []int{56, 60} {
				for tries := 0; tries < 40 && crafted < 6; tries++ {
					ok := true
					names := gen.SharedPrefixNames(c.Rand(), 3, shared)
					for _, nm := range names {
						if strings.ContainsAny(nm, "/\x00") {
							ok = false
						}
					}
					if !ok {
						continue
					}
					for _, nm := range names {
						if err := os.WriteFile(filepath.Join(root, nm), []byte(nm), 0o644); err != nil {
							c.Harness("fixture: %v", err)
							return
						}
						crafted++
					}
					break
				}
			}
			c.Count("crafted_deep_names", int64(crafted))
			st := store.New()
			// a large directory must not need one open file per entry: the import runs with the soft
			// descriptor limit lowered to what is open now + 120
			var lim syscall.Rlimit
			lowered := false
			if err := syscall.Getrlimit(syscall.RLIMIT_NOFILE, &lim); err == nil {
				if fds, err := os.ReadDir("/proc/self/fd"); err == nil {
					low := lim
					low.Cur = uint64(len(fds) + 120)
					if low.Cur < lim.Cur && syscall.Setrlimit(syscall.RLIMIT_NOFILE, &low) == nil {
						lowered = true
						c.Count("imports_under_low_fd_limit", 1)
					}
				}
			}
			l, _, err := builder.BuildUnixFSRecursive(root, st.LinkSystem(false))
			if lowered {
				syscall.Setrlimit(syscall.RLIMIT_NOFILE, &lim)
			}
			if err != nil {
				c.Violation("C18|import-error", "directory of %d entries: %v", n, err)
				return
			}
			c.Count("trees", 1)
			compareFS(c, st, st.LinkSystem(false), linkCid(l), root)
			rn, _ := walkerFor(st).Node(linkCid(l))
			sharded := rn != nil && rn.FS != nil && rn.FS.GetType() == 5
			c.Sig(fmt.Sprintf("bigdir|n%d|sharded=%v", n, sharded), true)
		})
	}
	// the import root itself being a file, a symlink, an empty directory
	// a chain of nested directories far deeper than any generated tree
	for _, depth := range []int{r.Pick(80, 400), r.Pick(150, 900)} {
		depth := depth
		r.Case(fmt.Sprintf("deep-chain/%d", depth), map[string]any{"depth": depth}, func(c *mon.Case) {
			dir := tmpRoot(c)
			defer os.RemoveAll(dir)
			root := filepath.Join(dir, "r")
			p := root
			for i := 0; i < depth; i++ {
				p = filepath.Join(p, []string{"d", "e", "x y"}[i%3])
			}
			if err := os.MkdirAll(p, 0o755); err != nil {
				c.Harness("mkdir chain of %d: %v", depth, err)
				return
			}
			os.WriteFile(filepath.Join(p, "bottom.txt"), gen.Content(c.Rand(), "rand", 300), 0o644)
			os.Symlink("../../up", filepath.Join(p, "lnk"))
			os.WriteFile(filepath.Join(root, "top.txt"), []byte("top"), 0o644)
			st := store.New()
			var l ipld.Link
			var err error
			if !c.Guard("BuildUnixFSRecursive", func() { l, _, err = builder.BuildUnixFSRecursive(root, st.LinkSystem(false)) }) {
				return
			}
			if err != nil {
				c.Violation("C18|import-error", "chain of %d nested directories: %v", depth, err)
				return
			}
			c.Count("trees", 1)
			c.Max("max_tree_depth", int64(depth))
			compareFS(c, st, st.LinkSystem(false), linkCid(l), root)
			c.Sig(fmt.Sprintf("deep-chain|%s", sizeClass(depth)), true)
		})
	}
	// a tree that belongs to somebody else: the importing user may read every file and list every
	// directory but owns none of them (an ordinary user taking in /usr/share/doc). The harness runs as
	// root, which owns everything it creates, so the importing goroutine is pinned to its thread and
	// that thread's effective user is dropped for the duration of the import
	for i := 0; i < r.Pick(3, 20); i++ {
		i := i
		r.Case(fmt.Sprintf("foreign-owned/%d", i), map[string]any{"tree": i, "importing_uid": 65534}, func(c *mon.Case) {
			if os.Geteuid() != 0 {
				c.Count("skipped_not_root", 1)
				return
			}
			dir := tmpRoot(c)
			defer os.RemoveAll(dir)
			os.Chmod(dir, 0o755)
			root := filepath.Join(dir, "root")
			os.Mkdir(root, 0o755)
			stt := &fsStats{symKinds: map[string]bool{}}
			budget := 20 + c.Rand().Intn(40)
			makeFSTree(c.Rand(), root, 0, stt, &budget)
			// everything world-readable and -searchable, nothing owned by the importer
			filepath.Walk(root, func(p string, info os.FileInfo, err error) error {
				if err == nil && info.Mode()&os.ModeSymlink == 0 {
					if info.IsDir() {
						os.Chmod(p, 0o755)
					} else {
						os.Chmod(p, 0o644)
					}
				}
				return nil
			})
			st := store.New()
			var l ipld.Link
			var err error
			var dropErr, restoreErr syscall.Errno
			ok := c.Guard("BuildUnixFSRecursive as another user", func() {
				runtime.LockOSThread()
				defer runtime.UnlockOSThread()
				none := ^uintptr(0)
				if _, _, dropErr = syscall.RawSyscall(syscall.SYS_SETRESUID, none, 65534, none); dropErr != 0 {
					return
				}
				defer func() {
					_, _, restoreErr = syscall.RawSyscall(syscall.SYS_SETRESUID, none, 0, none)
				}()
				l, _, err = builder.BuildUnixFSRecursive(root, st.LinkSystem(false))
			})
			if dropErr != 0 || restoreErr != 0 {
				c.Harness("changing the thread's effective uid: %v / %v", dropErr, restoreErr)
				return
			}
			if !ok {
				return
			}
			c.Count("trees", 1)
			c.Count("trees_imported_as_non_owner", 1)
			if err != nil {
				c.Violation("C18|import-error|foreign-owned", "a tree of %d files, %d dirs, %d symlinks that the importing user (uid 65534) can read but does not own: %v", stt.files, stt.dirs, stt.symlinks, err)
				return
			}
			compareFS(c, st, st.LinkSystem(false), linkCid(l), root)
			c.Sig("foreign-owned", stt.files >= 1)
		})
	}
	r.Case("roots", map[string]any{"roots": "file, empty file, symlink, dangling symlink, empty dir, fifo"}, func(c *mon.Case) {
		dir := tmpRoot(c)
		defer os.RemoveAll(dir)
		os.WriteFile(filepath.Join(dir, "file"), gen.Content(c.Rand(), "rand", 300000), 0o644)
		os.WriteFile(filepath.Join(dir, "empty"), nil, 0o644)
		os.Symlink("file", filepath.Join(dir, "lnk"))
		os.Symlink("nowhere/at/all", filepath.Join(dir, "dangling"))
		// symbolic links whose target text is as long as the file system allows (PATH_MAX-1) and a bit shorter
		os.Mkdir(filepath.Join(dir, "longlinks"), 0o755)
		longOK := 0
		for _, tl := range []int{4095, 4094, 1024, 255} {
			tgt := strings.Repeat("t/", tl/2)
			if len(tgt) < tl {
				tgt += "x"
			}
			if os.Symlink(tgt[:tl], filepath.Join(dir, "longlinks", fmt.Sprintf("l%d", tl))) == nil {
				longOK++
			}
		}
		c.Count("long_symlink_targets", int64(longOK))
		os.Mkdir(filepath.Join(dir, "emptydir"), 0o755)
		syscall.Mkfifo(filepath.Join(dir, "fifo"), 0o644)
		for _, n := range []string{"file", "empty", "lnk", "dangling", "emptydir", "longlinks"} {
			st := store.New()
			l, _, err := builder.BuildUnixFSRecursive(filepath.Join(dir, n), st.LinkSystem(false))
			if err != nil {
				c.Violation("C18|import-error", "import root %q: %v", n, err)
				continue
			}
			c.Count("trees", 1)
			compareFS(c, st, st.LinkSystem(false), linkCid(l), filepath.Join(dir, n))
			c.Sig("root|"+n, true)
		}
		// regular files whose stat size says nothing about their content (kernel pseudo-files report 0)
		for _, pf := range []string{"/proc/sys/kernel/ostype", "/proc/version", "/proc/filesystems", "/proc/kallsyms", "/proc/crypto", "/proc/devices"} {
			fi, err := os.Lstat(pf)
			if err != nil || !fi.Mode().IsRegular() {
				continue
			}
			want, err := os.ReadFile(pf)
			if err != nil || len(want) == 0 {
				continue
			}
			pst := store.New()
			l, _, err := builder.BuildUnixFSRecursive(pf, pst.LinkSystem(false))
			if err != nil {
				c.Violation("C18|import-error", "import root %q: %v", pf, err)
				continue
			}
			c.Count("trees", 1)
			c.Count("pseudo_file_roots", 1)
			compareFS(c, pst, pst.LinkSystem(false), linkCid(l), pf)
			c.Sig("root|pseudo-file|statsize="+fmt.Sprint(fi.Size()), true)
		}
		// symbolic links whose lstat size says nothing about their target (the kernel's magic links report 0)
		for _, pl := range []string{"/proc/self", "/proc/self/cwd", "/proc/self/exe", "/proc/self/root", "/proc/mounts"} {
			fi, err := os.Lstat(pl)
			if err != nil || fi.Mode()&os.ModeSymlink == 0 {
				continue
			}
			if tgt, err := os.Readlink(pl); err != nil || tgt == "" {
				continue
			}
			pst := store.New()
			l, _, err := builder.BuildUnixFSRecursive(pl, pst.LinkSystem(false))
			if err != nil {
				c.Violation("C18|import-error", "import root %q (a symbolic link): %v", pl, err)
				continue
			}
			c.Count("trees", 1)
			c.Count("pseudo_symlink_roots", 1)
			compareFS(c, pst, pst.LinkSystem(false), linkCid(l), pl)
			c.Sig("root|pseudo-symlink|statsize="+fmt.Sprint(fi.Size()), true)
		}
		// files that lstat calls regular but whose read fails: the only right result is an error
		for _, uf := range []string{"/proc/self/mem", "/proc/self/clear_refs"} {
			fi, err := os.Lstat(uf)
			if err != nil || !fi.Mode().IsRegular() {
				continue
			}
			if fp, err := os.Open(uf); err == nil {
				_, rerr := io.ReadAll(fp)
				fp.Close()
				if rerr == nil {
					continue // readable here
				}
			} else {
				continue
			}
			ust := store.New()
			l, _, err := builder.BuildUnixFSRecursive(uf, ust.LinkSystem(false))
			c.Count("unreadable_file_roots", 1)
			if err == nil {
				c.Violation("C18|unreadable-accepted", "import root %q is a regular file whose read fails; the import returned %v and no error", uf, l)
			}
			c.Sig("root|unreadable-file", true)
		}
		st := store.New()
		if _, _, err := builder.BuildUnixFSRecursive(filepath.Join(dir, "fifo"), st.LinkSystem(false)); err == nil {
			c.Violation("C18|special-accepted|fifo", "a fifo as import root was accepted")
		}
		c.Count("rejected_trees", 1)
		if fi, err := os.Lstat("/dev/null"); err == nil && fi.Mode()&os.ModeCharDevice != 0 {
			if l, _, err := builder.BuildUnixFSRecursive("/dev/null", st.LinkSystem(false)); err == nil {
				c.Violation("C18|special-accepted|chardev", "the character device /dev/null as import root was accepted (link %v)", l)
			}
			c.Count("rejected_trees", 1)
			c.Sig("root|chardev", true)
		}
		if _, _, err := builder.BuildUnixFSRecursive(filepath.Join(dir, "does-not-exist"), st.LinkSystem(false)); err == nil {
			c.Violation("C18|missing-root-accepted", "a non-existent import root was accepted")
		}
	})
}

func uniqStrings(s []string) []string {
	var out []string
	for i, x := range s {
		if i == 0 || x != s[i-1] {
			out = append(out, x)
		}
	}
	return out
}
