package props

import (
	"encoding/binary"
	"fmt"
	"math/bits"
	"testing"

	"github.com/ipfs/go-cid"
	"github.com/ipfs/go-unixfsnode/data/builder"
	quickbuilder "github.com/ipfs/go-unixfsnode/data/builder/quick"
	"github.com/ipfs/go-unixfsnode/hamt"
	dagpb "github.com/ipld/go-codec-dagpb"
	"github.com/ipld/go-ipld-prime"
	cidlink "github.com/ipld/go-ipld-prime/linking/cid"
	"github.com/multiformats/go-multihash"

	"verifharness/gen"
	"verifharness/mon"
	"verifharness/oracle"
	"verifharness/store"
)

var allFanouts = []int{8, 16, 32, 64, 128, 256, 512, 1024}

type dirCase struct {
	Builder string `json:"builder"` // sharded | auto | quick
	Fanout  int    `json:"fanout,omitempty"`
	Family  string `json:"family"`
	N       int    `json:"n"`
	Shared  int    `json:"shared_hash_bits,omitempty"` // crafted sets
}

func (d dirCase) id() string {
	return fmt.Sprintf("%s/f%d/%s/n%d/s%d", d.Builder, d.Fanout, d.Family, d.N, d.Shared)
}

// namesFor materialises the entry names of a directory case.
func namesFor(c *mon.Case, d dirCase) []string {
	r := c.Rand()
	switch d.Family {
	case "crafted":
		return gen.SharedPrefixNames(r, d.N, d.Shared)
	case "collide64":
		return gen.CollidingNames(r, d.N)
	case "alias":
		// members whose 64-bit hash equals that of one of their own proper
		// suffixes / prefixes, so a lookup of that non-member walks the very
		// same bucket chain down to the member's value link
		var out []string
		for i := 0; len(out) < d.N; i++ {
			suf := []byte(fmt.Sprintf(".t%d.gz", i))
			out = append(out, gen.CraftAround(nil, suf, oracle.Hash64(string(suf)), r.Uint64()))
			pre := []byte(fmt.Sprintf("prefix-alia-%04d", i))
			out = append(out, gen.CraftAround(pre, nil, oracle.Hash64(string(pre)), r.Uint64()))
		}
		return out[:d.N]
	case "crafted+filler":
		ns := gen.SharedPrefixNames(r, d.N, d.Shared)
		return append(ns, gen.Names(r, gen.FamASCII, 40)...)
	}
	for f := 0; f < gen.NumFamilies; f++ {
		if gen.FamilyName(f) == d.Family {
			return gen.Names(r, f, d.N)
		}
	}
	panic("unknown family " + d.Family)
}

// representable tells whether a HAMT consuming lg bits per level of the 64-bit
// hash can hold all names: their hashes must be pairwise distinct within the
// usable prefix of floor(64/lg) levels.
func representable(names []string, lg int) bool {
	if lg == 0 {
		return true
	}
	usable := uint((64 / lg) * lg)
	seen := map[uint64]bool{}
	for _, n := range names {
		p := oracle.Hash64(n) >> (64 - usable)
		if seen[p] {
			return false
		}
		seen[p] = true
	}
	return true
}

// resolvable tells whether two hashes diverging first at bit `shared` can be
// separated by a HAMT consuming lg bits per level of a 64-bit hash.
func resolvable(shared, lg int) bool {
	level := shared / lg
	return (level+1)*lg <= 64
}

func sizeClass(n int) string {
	switch {
	case n == 0:
		return "0"
	case n == 1:
		return "1"
	case n <= 8:
		return "2-8"
	case n <= 64:
		return "9-64"
	case n <= 512:
		return "65-512"
	}
	return ">512"
}

func dirCases(r *mon.Run) []dirCase {
	var out []dirCase
	fams := []string{"ascii", "mixed", "hexprefix", "legacy", "single", "numeric", "badutf8"}
	for _, f := range allFanouts {
		sizes := []int{0, 1, 2, 3, f - 1, f, f + 1, 2*f + 1, 300}
		if !r.Quick() {
			sizes = append(sizes, 2000)
		}
		for i, n := range sizes {
			if r.Quick() {
				// rotate families over sizes to keep the quick tier small
				out = append(out, dirCase{"sharded", f, fams[(i+f)%len(fams)], n, 0})
				if n > 3 && n < 300 && f <= 64 {
					out = append(out, dirCase{"sharded", f, fams[(i+f+3)%len(fams)], n, 0})
				}
			} else {
				for _, fam := range fams {
					if n > 90 && fam == "single" {
						continue
					}
					out = append(out, dirCase{"sharded", f, fam, n, 0})
				}
			}
		}
		out = append(out, dirCase{"sharded", f, "alias", 24, 0}, dirCase{"sharded", f, "verylong", 30 + f/8, 0})
		lg := bits.TrailingZeros(uint(f))
		// crafted sets: force every depth up to the last usable level
		for s := lg; s < 64; s += lg {
			if r.Quick() && s > 3*lg && s < 64-3*lg && (s/lg)%4 != 0 {
				continue
			}
			out = append(out, dirCase{"sharded", f, "crafted", 2 + (s/lg)%3, s})
		}
		for _, s := range []int{63, 62, 61, 64 - lg, 64 - lg - 1, 64 - lg + 1} {
			if s > 0 && s < 64 {
				out = append(out, dirCase{"sharded", f, "crafted", 2, s})
				out = append(out, dirCase{"sharded", f, "crafted+filler", 3, s})
			}
		}
	}
	if !r.Quick() {
		out = append(out, dirCase{"sharded", 8, "ascii", 50000, 0}, dirCase{"sharded", 256, "mixed", 50000, 0}, dirCase{"sharded", 1024, "ascii", 20000, 0})
	}
	// auto-selecting builder around the 262144-byte threshold: 220-byte names +
	// 36-byte CIDv1 = 256 bytes per entry
	for _, n := range []int{0, 1, 2, 50, 1023, 1024, 1025, 1026} {
		out = append(out, dirCase{"auto", 0, "long", n, 0})
	}
	for _, fam := range fams {
		out = append(out, dirCase{"auto", 0, fam, 40, 0}, dirCase{"quick", 0, fam, 25, 0})
	}
	out = append(out, dirCase{"auto", 0, "verylong", 300, 0}, dirCase{"auto", 0, "verylong", 20, 0})
	out = append(out, dirCase{"quick", 0, "long", 1025, 0}, dirCase{"quick", 0, "long", 1024, 0}, dirCase{"quick", 0, "ascii", 0, 0}, dirCase{"auto", 0, "crafted", 4, 40})
	if !r.Quick() {
		out = append(out, dirCase{"auto", 0, "ascii", 20000, 0}, dirCase{"auto", 0, "mixed", 30000, 0})
	}
	return out
}

type qnode struct {
	c    cid.Cid
	sz   int64
	fail bool
}

func (q qnode) Size() (int64, error) {
	if q.fail {
		return 0, fmt.Errorf("size unknown")
	}
	return q.sz, nil
}
func (q qnode) Link() ipld.Link { return cidlink.Link{Cid: q.c} }

// buildDir runs the builder named by the case.
func buildDir(d dirCase, st *store.Store, entries []dagpb.PBLink, model map[string]cid.Cid, sizes map[string]uint64) (cid.Cid, uint64, error) {
	ls := st.LinkSystem(false)
	switch d.Builder {
	case "sharded":
		l, sz, err := builder.BuildUnixFSShardedDirectory(d.Fanout, multihash.MURMUR3X64_64, entries, ls)
		return linkCid(l), sz, err
	case "auto":
		l, sz, err := builder.BuildUnixFSDirectory(entries, ls)
		return linkCid(l), sz, err
	case "quick":
		var root cid.Cid
		var size uint64
		err := quickbuilder.Store(ls, func(b *quickbuilder.Builder) error {
			m := map[string]quickbuilder.Node{}
			for n, c := range model {
				// a user-implemented Node may fail to report its size (every seventh name here)
				m[n] = qnode{c, int64(sizes[n]), len(n)%7 == 3 && d.Family != "long"}
			}
			nd := b.NewMapDirectory(m)
			if nd == nil {
				return fmt.Errorf("NewMapDirectory returned nil")
			}
			root = linkCid(nd.Link())
			s, _ := nd.Size()
			size = uint64(s)
			return nil
		})
		return root, size, err
	}
	panic("unknown builder")
}

func TestC02(t *testing.T) {
	r := mon.Start(t, "C02")
	defer r.Close()
	seen := map[string]bool{}
	for _, d := range dirCases(r) {
		d := d
		if seen[d.id()] {
			continue
		}
		seen[d.id()] = true
		r.Case(d.id(), d, func(c *mon.Case) {
			names := namesFor(c, d)
			st := store.New()
			entries, model, sizes := childEntries(st, names)
			mon.Shuffle(c.Rand(), entries)
			lg := 0
			if d.Fanout > 0 {
				lg = bits.TrailingZeros(uint(d.Fanout))
			}
			var root cid.Cid
			var err error
			if !c.Guard("build", func() { root, _, err = buildDir(d, st, entries, model, sizes) }) {
				return
			}
			mustFail := d.Builder == "sharded" && !representable(names, lg)
			if mustFail {
				c.Count("unresolvable_sets", 1)
				// neither implementation can represent the set; the reference must refuse as well
				rs, rerr := oracle.NewRefShard(store.New(), d.Fanout)
				if rerr == nil {
					for n, cc := range model {
						if rerr = rs.Set(n, cc, sizes[n]); rerr != nil {
							break
						}
					}
				}
				if (err == nil) != (rerr == nil) {
					if err == nil {
						// the builder produced something the reference refuses: check it anyway below
						c.Harness("reference refused (%v) a set the builder accepted", rerr)
					} else {
						c.Violation("C02|build-refused", "builder refused (%v) a set the reference HAMT accepts", err)
					}
				}
				if err != nil {
					c.Sig(fmt.Sprintf("%s|f%d|refused|%s", d.Builder, d.Fanout, d.Family), true)
					return
				}
			}
			if err != nil {
				c.Violation("C02|build-error", "builder failed on a representable entry set (%d names, hash bits shared %d): %v", len(names), d.Shared, err)
				return
			}
			c.Count("directories", 1)
			ls := st.LinkSystem(false)
			node, err := loadReified(ls, root)
			if err != nil {
				c.Violation("C02|reify-error", "Reify of built directory: %v", err)
				return
			}
			w := walkerFor(st)
			depth := 0
			sharded := false
			if rn, e := w.Node(root); e == nil && rn.FS != nil && rn.FS.GetType() == 5 {
				sharded = true
				_, _, md, e := w.HamtWalk(root)
				if e != nil {
					c.Violation("C02|oracle-walk", "independent walk of the built HAMT failed: %v", e)
				}
				depth = md + 1
				c.Max("max_hamt_depth", int64(depth))
				if d.Fanout > 0 {
					c.Max(fmt.Sprintf("max_depth_f%d", d.Fanout), int64(depth))
				}
			}
			var pads []int
			if sharded {
				rn, _ := w.Node(root)
				pads = []int{oracle.PadLen(rn.FS.GetFanout())}
			}
			// non-members that collide with a member's bucket chain
			var extra []string
			if len(names) > 0 {
				rr := c.Rand()
				for i := 0; i < 12; i++ {
					m := names[rr.Intn(len(names))]
					h := oracle.Hash64(m)
					keep := uint(8 + rr.Intn(57))
					var mask uint64 = ^uint64(0) << (64 - keep)
					if keep >= 64 {
						mask = ^uint64(0)
					}
					extra = append(extra, gen.Craft16(h&mask|rr.Uint64()&^mask, rr.Uint64()))
				}
			}
			for _, m := range names {
				if len(m) > 16 {
					extra = append(extra, m[16:], m[:16]) // proper suffix / prefix of a member
				}
			}
			if sharded && len(names) >= 3 && (len(names)+d.Fanout)%3 == 0 {
				// the node has been used a little; then its owner points the link system at another
				// store holding the same blocks and shuts the old one: the node goes on working
				for _, nm := range names[:3] {
					c.Guard("LookupByString", func() { node.LookupByString(nm) })
				}
				st2 := st.Clone()
				ls.StorageReadOpener = st2.OpenRead
				st.Closed = true
				c.Count("directories_on_retargeted_link_system", 1)
			}
			checkDirAsMap(c, "C02", node, model, extra, pads, 3000)
			st.Closed = false
			if sharded && len(names) <= 2100 {
				// a link system that preloads every block it loads (its NodeReifier is the preloading UnixFS
				// reifier): child shards arrive already measured; the directory is the same map
				ls3 := st.LinkSystem(true)
				ls3.NodeReifier = ls3.KnownReifiers["unixfs-preload"]
				if raw3, err := loadRaw(st.LinkSystem(false), root); err == nil {
					var pre ipld.Node
					var perr error
					if c.Guard("unixfs-preload under a preloading NodeReifier", func() {
						pre, perr = ls3.KnownReifiers["unixfs-preload"](ipld.LinkContext{Ctx: bg}, raw3, ls3)
					}) {
						if perr != nil || pre == nil {
							c.Violation("C02|reify", "unixfs-preload under a link system whose NodeReifier preloads: %v", perr)
						} else {
							c.Count("directories_under_preloading_nodereifier", 1)
							runDirHistory(c, "C02", pre, model, pads, 60)
							for i := 0; i < len(names); i += 1 + len(names)/200 {
								v, err := pre.LookupByString(names[i])
								if err != nil {
									c.Violation("C02|member-not-found", "LookupByString(%q) of a member on a directory preloaded under a preloading NodeReifier: %v", names[i], err)
									break
								}
								if got, e := asCid(v); e != nil || !got.Equals(model[names[i]]) {
									c.Violation("C02|member-wrong-link", "LookupByString(%q) = %v on a directory preloaded under a preloading NodeReifier, want %v", names[i], got, model[names[i]])
									break
								}
							}
						}
					}
				}
			}
			if len(names) <= 700 {
				// random histories of operations, each on a node of its own: one fresh, one that has been
				// through everything above
				if fresh, err := loadReified(ls, root); err == nil {
					runDirHistory(c, "C02", fresh, model, pads, 150)
				}
				runDirHistory(c, "C02", node, model, pads, 80)
			}
			c.Sig(fmt.Sprintf("%s|f%d|sharded=%v|depth%d|%s|%s", d.Builder, d.Fanout, sharded, depth, d.Family, sizeClass(len(names))), len(names) >= 2)
			c.Sample(map[string]any{"root": root.String(), "entries": len(names), "sharded": sharded, "hamt_depth": depth, "blocks": st.Len()})
		})
	}
	// exhaustive (offset,width) sweep of both hashBits helpers against the oracle
	r.Case("hashbits-sweep", map[string]any{"widths": "3..10", "offsets": "0..64", "hashes": r.Pick(300, 5000)}, func(c *mon.Case) {
		rr := c.Rand()
		for i := 0; i < r.Pick(300, 5000); i++ {
			h := rr.Uint64()
			switch i {
			case 0:
				h = 0
			case 1:
				h = ^uint64(0)
			case 2:
				h = 0xaaaaaaaaaaaaaaaa
			case 3:
				h = 0x0123456789abcdef
			}
			var b [8]byte
			binary.BigEndian.PutUint64(b[:], h)
			for w := 3; w <= 10; w++ {
				for off := 0; off <= 64; off++ {
					want, ok := oracle.SliceBits(h, off, w)
					var got int
					var err error
					c.Guard("builder hashBits.Slice", func() { got, err = builder.VerifHashBitsSlice(b[:], off, w) })
					c.Count("hashbits_slices", 1)
					if ok != (err == nil) || (ok && got != want) {
						c.Violation("C02|hashbits|builder-slice", "Slice(hash=%016x, offset=%d, width=%d) = (%d,%v), oracle (%d, ok=%v)", h, off, w, got, err, want, ok)
					}
					// reader side: consume `off` bits in pieces, then w bits
					var widths []int
					for rem := off; rem > 0; {
						p := 1 + rr.Intn(10)
						if p > rem {
							p = rem
						}
						widths = append(widths, p)
						rem -= p
					}
					widths = append(widths, w)
					var outs []int
					c.Guard("reader hashBits.Next", func() { outs, err = hamt.VerifHashBitsNext(b[:], widths) })
					c.Count("hashbits_nexts", 1)
					if ok != (err == nil) {
						c.Violation("C02|hashbits|reader-next-bound", "Next sequence %v over %016x: err=%v, oracle ok=%v", widths, h, err, ok)
					} else if ok {
						pos := 0
						for j, pw := range widths {
							wv, _ := oracle.SliceBits(h, pos, pw)
							if outs[j] != wv {
								c.Violation("C02|hashbits|reader-next", "Next(%d) at bit %d of %016x = %d, oracle %d", pw, pos, h, outs[j], wv)
								break
							}
							pos += pw
						}
					}
				}
			}
			// uniform level sequences as the HAMT consumes them
			for _, f := range allFanouts {
				lg := bits.TrailingZeros(uint(f))
				path := oracle.HashPath("x", f)
				_ = path
				var widths []int
				for k := 0; (k+1)*lg <= 64; k++ {
					widths = append(widths, lg)
				}
				outs, err := hamt.VerifHashBitsNext(b[:], widths)
				if err != nil {
					c.Violation("C02|hashbits|reader-levels", "consuming %d levels of %d bits failed: %v", len(widths), lg, err)
					continue
				}
				for k, v := range outs {
					wv, _ := oracle.SliceBits(h, k*lg, lg)
					bv, berr := builder.VerifHashBitsSlice(b[:], k*lg, lg)
					if v != wv || bv != wv || berr != nil {
						c.Violation("C02|hashbits|level-disagree", "level %d of fanout %d over %016x: reader %d builder %d (%v) oracle %d", k, f, h, v, bv, berr, wv)
						break
					}
				}
			}
		}
		c.Sig("hashbits-sweep", true)
	})
}
