package props

import (
	"bytes"
	"crypto/sha256"
	"fmt"
	"io"
	"strings"

	"github.com/gogo/protobuf/proto"
	pb "github.com/ipfs/boxo/ipld/unixfs/pb"
	"github.com/ipfs/go-cid"
	"github.com/ipfs/go-unixfsnode"
	"github.com/ipfs/go-unixfsnode/data/builder"
	unixfsiter "github.com/ipfs/go-unixfsnode/iter"
	dagpb "github.com/ipld/go-codec-dagpb"
	"github.com/ipld/go-ipld-prime"
	"github.com/ipld/go-ipld-prime/datamodel"
	cidlink "github.com/ipld/go-ipld-prime/linking/cid"
	"github.com/ipld/go-ipld-prime/node/basicnode"
	"github.com/multiformats/go-multihash"

	"verifharness/oracle"
	"verifharness/store"
)

var bg = store.Ctx

func protoForCid(c cid.Cid) datamodel.NodePrototype {
	if c.Prefix().Codec == cid.DagProtobuf {
		return dagpb.Type.PBNode
	}
	return basicnode.Prototype.Any
}

func loadRaw(ls *ipld.LinkSystem, c cid.Cid) (ipld.Node, error) {
	return ls.Load(ipld.LinkContext{Ctx: bg}, cidlink.Link{Cid: c}, protoForCid(c))
}

func linkCid(l ipld.Link) cid.Cid {
	if l == nil {
		return cid.Undef
	}
	return l.(cidlink.Link).Cid
}

// withWidth runs f with builder.DefaultLinksPerBlock set to w (workers never
// run two cases concurrently, so the package global is not raced).
func withWidth(w int, f func()) {
	old := builder.DefaultLinksPerBlock
	builder.DefaultLinksPerBlock = w
	defer func() { builder.DefaultLinksPerBlock = old }()
	f()
}

func walkerFor(st *store.Store) *oracle.Walker { return oracle.NewWalker(st.Get) }

// shapeOf describes a file DAG: depth (1 = single block) and the child counts
// along the right spine.
func shapeOf(w *oracle.Walker, root cid.Cid) (depth int, spine []int, blocks int) {
	c := root
	for {
		depth++
		n, err := w.Node(c)
		if err != nil || len(n.Links) == 0 {
			break
		}
		spine = append(spine, len(n.Links))
		c = n.Links[len(n.Links)-1].Cid
	}
	seen := map[string]bool{}
	var rec func(c cid.Cid)
	rec = func(c cid.Cid) {
		if seen[c.KeyString()] {
			return
		}
		seen[c.KeyString()] = true
		n, err := w.Node(c)
		if err != nil {
			return
		}
		for _, l := range n.Links {
			rec(l.Cid)
		}
	}
	rec(root)
	return depth, spine, len(seen)
}

func chunkerKind(ch string) string {
	switch {
	case ch == "" || ch == "default":
		return "default"
	case strings.HasPrefix(ch, "size-"):
		return "size"
	case strings.HasPrefix(ch, "rabin"):
		return "rabin"
	case strings.HasPrefix(ch, "buzhash"):
		return "buzhash"
	}
	return ch
}

func firstDiff(a, b []byte) int {
	n := len(a)
	if len(b) < n {
		n = len(b)
	}
	for i := 0; i < n; i++ {
		if a[i] != b[i] {
			return i
		}
	}
	if len(a) != len(b) {
		return n
	}
	return -1
}

func sum(b []byte) string {
	h := sha256.Sum256(b)
	return fmt.Sprintf("%x", h[:6])
}

// readLoop reads r to the end with a fixed buffer size using plain Read calls.
func readLoop(r io.Reader, bufSize int, limit int) ([]byte, error) {
	var out bytes.Buffer
	buf := make([]byte, bufSize)
	zero := 0
	for {
		n, err := r.Read(buf)
		if n < 0 || n > len(buf) {
			return out.Bytes(), fmt.Errorf("Read returned n=%d for a buffer of %d", n, len(buf))
		}
		out.Write(buf[:n])
		if err == io.EOF {
			return out.Bytes(), nil
		}
		if err != nil {
			return out.Bytes(), err
		}
		if n == 0 {
			zero++
			if zero > 100 {
				return out.Bytes(), fmt.Errorf("100 consecutive (0,nil) reads")
			}
		} else {
			zero = 0
		}
		if out.Len() > limit {
			return out.Bytes(), fmt.Errorf("read more than %d bytes", limit)
		}
	}
}

type largeBytes interface {
	AsLargeBytes() (io.ReadSeeker, error)
}

// childEntries stores one small raw block per name and returns directory
// entries pointing at them (distinct links per entry, true Tsize).
func childEntries(st *store.Store, names []string) ([]dagpb.PBLink, map[string]cid.Cid, map[string]uint64) {
	links := make([]dagpb.PBLink, 0, len(names))
	m := map[string]cid.Cid{}
	sz := map[string]uint64{}
	for i, n := range names {
		data := []byte(fmt.Sprintf("child-%d-%s", i, n))
		if len(data) > 40 {
			data = data[:40]
		}
		if i%9 == 4 {
			data = nil // an empty child: its entry carries Tsize 0
		}
		c := st.PutBlock(1, cid.Raw, data)
		e, err := builder.BuildUnixFSDirectoryEntry(n, int64(len(data)), cidlink.Link{Cid: c})
		if err != nil {
			panic(err)
		}
		links = append(links, e)
		m[n] = c
		sz[n] = uint64(len(data))
	}
	return links, m, sz
}

func reify(ls *ipld.LinkSystem, n ipld.Node) (ipld.Node, error) {
	return unixfsnode.Reify(ipld.LinkContext{Ctx: bg}, n, ls)
}

func loadReified(ls *ipld.LinkSystem, c cid.Cid) (ipld.Node, error) {
	n, err := loadRaw(ls, c)
	if err != nil {
		return nil, err
	}
	return reify(ls, n)
}

// ---- hand-made file DAGs (legal but unusual shapes no importer emits) ----

type pbLinkSpec struct {
	Name  *string
	Tsize *uint64
	Cid   cid.Cid
}

// encodePB hand-encodes a dag-pb block in canonical field order (links first,
// then data) WITHOUT sorting links.
func encodePB(data []byte, hasData bool, links []pbLinkSpec) []byte {
	var out []byte
	for _, l := range links {
		var lb []byte
		cb := l.Cid.Bytes()
		lb = appendTagBytes(lb, 1, cb)
		if l.Name != nil {
			lb = appendTagBytes(lb, 2, []byte(*l.Name))
		}
		if l.Tsize != nil {
			lb = append(lb, 3<<3|0)
			lb = appendVarint(lb, *l.Tsize)
		}
		out = appendTagBytes(out, 2, lb)
	}
	if hasData {
		out = appendTagBytes(out, 1, data)
	}
	return out
}

func appendVarint(b []byte, v uint64) []byte {
	for v >= 0x80 {
		b = append(b, byte(v)|0x80)
		v >>= 7
	}
	return append(b, byte(v))
}

func appendTagBytes(b []byte, field int, v []byte) []byte {
	b = append(b, byte(field<<3|2))
	b = appendVarint(b, uint64(len(v)))
	return append(b, v...)
}

func u64p(v uint64) *uint64 { return &v }
func strp(s string) *string { return &s }

func mustMarshal(m *pb.Data) []byte {
	b, err := proto.Marshal(m)
	if err != nil {
		panic(err)
	}
	return b
}

// handFileOpts selects which optional size information a hand-made file
// carries.
type handFileOpts struct {
	Width           int
	PBLeaves        bool // leaves are dag-pb File nodes with inline data (else raw)
	NoBlockSize     bool // interior nodes omit blocksizes
	NoFileSize      bool // interior nodes omit filesize
	V0              bool
	LeafType        pb.Data_DataType
	InteriorRaw     bool // interior nodes carry UnixFS type Raw instead of File (legal: read as files)
	EmptyData       bool // interior nodes carry a Data field of length zero
	ExtraBlockSize  bool // interior nodes declare one block size (0) more than they have links
	FewerBlockSizes bool // interior nodes record the size of their first child only
	LeafMtimes      bool // every dag-pb leaf carries a modification time of its own (UnixFS 1.5)
	HighMode        bool // interior nodes carry a mode with bit 31 set (a legal 32-bit value)
	InlineOdd       bool // every second leaf is inlined into an identity CID (mixed with hashed siblings under one parent)
	PBTsize         int  // Tsize on links to dag-pb children: 0 cumulative, 1 zero, 2 absent, 3 one (Tsize is advisory there)
}

// handFile builds a balanced file DAG over chunks by hand.
func handFile(st *store.Store, chunks [][]byte, o handFileOpts) (cid.Cid, uint64) {
	type nd struct {
		c     cid.Cid
		bytes uint64
		tsize uint64
	}
	ver := 1
	if o.V0 {
		ver = 0
	}
	var level []nd
	for _, ch := range chunks {
		if o.PBLeaves {
			t := o.LeafType
			m := &pb.Data{Type: &t, Data: ch, Filesize: proto.Uint64(uint64(len(ch)))}
			if o.LeafMtimes {
				secs := int64(1600000000 + 977*len(level))
				ns := uint32(len(level) * 1000003 % 1000000000)
				m.Mtime = &pb.IPFSTimestamp{Seconds: &secs, Nanos: &ns}
			}
			blk := encodePB(mustMarshal(m), true, nil)
			var c cid.Cid
			if o.InlineOdd && len(level)%2 == 1 {
				c = st.PutAs(identityCid(cid.DagProtobuf, blk), blk)
			} else {
				c = st.PutBlock(ver, cid.DagProtobuf, blk)
			}
			level = append(level, nd{c, uint64(len(ch)), uint64(len(blk))})
		} else {
			var c cid.Cid
			if o.InlineOdd && len(level)%2 == 1 {
				c = st.PutAs(identityCid(cid.Raw, ch), ch)
			} else {
				c = st.PutBlock(1, cid.Raw, ch)
			}
			level = append(level, nd{c, uint64(len(ch)), uint64(len(ch))})
		}
	}
	if len(level) == 0 {
		t := pb.Data_File
		blk := encodePB(mustMarshal(&pb.Data{Type: &t}), true, nil)
		c := st.PutBlock(ver, cid.DagProtobuf, blk)
		return c, uint64(len(blk))
	}
	for len(level) > 1 || (len(level) == 1 && level[0].c.Prefix().Codec == cid.Raw && false) {
		var next []nd
		for i := 0; i < len(level); i += o.Width {
			j := i + o.Width
			if j > len(level) {
				j = len(level)
			}
			t := pb.Data_File
			if o.InteriorRaw {
				t = pb.Data_Raw
			}
			m := &pb.Data{Type: &t}
			if o.HighMode {
				m.Mode = proto.Uint32(0x80000000 | 0o644)
			}
			if o.EmptyData {
				m.Data = []byte{}
			}
			var links []pbLinkSpec
			var total, ts uint64
			for _, ch := range level[i:j] {
				if !o.NoBlockSize {
					m.Blocksizes = append(m.Blocksizes, ch.bytes)
				}
				total += ch.bytes
				ts += ch.tsize
				lts := u64p(ch.tsize)
				if ch.c.Prefix().Codec == cid.DagProtobuf {
					switch o.PBTsize {
					case 1:
						lts = u64p(0)
					case 2:
						lts = nil
					case 3:
						lts = u64p(1)
					}
				}
				links = append(links, pbLinkSpec{Name: strp(""), Tsize: lts, Cid: ch.c})
			}
			if !o.NoFileSize {
				m.Filesize = proto.Uint64(total)
			}
			if o.ExtraBlockSize && !o.NoBlockSize {
				m.Blocksizes = append(m.Blocksizes, 0)
			}
			if o.FewerBlockSizes && len(m.Blocksizes) > 1 {
				m.Blocksizes = m.Blocksizes[:1]
			}
			blk := encodePB(mustMarshal(m), true, links)
			c := st.PutBlock(ver, cid.DagProtobuf, blk)
			next = append(next, nd{c, total, ts + uint64(len(blk))})
		}
		level = next
	}
	return level[0].c, level[0].tsize
}

func identityCid(codec uint64, data []byte) cid.Cid {
	mh, err := multihash.Sum(data, multihash.IDENTITY, -1)
	if err != nil {
		panic(err)
	}
	return cid.NewCidV1(codec, mh)
}

func splitChunks(content []byte, k int) [][]byte {
	var out [][]byte
	for i := 0; i < len(content); i += k {
		j := i + k
		if j > len(content) {
			j = len(content)
		}
		out = append(out, content[i:j])
	}
	return out
}

var _ = multihash.SHA2_256

func handVariants() []handFileOpts {
	var out []handFileOpts
	for _, pbl := range []bool{false, true} {
		for _, nbs := range []bool{false, true} {
			for _, nfs := range []bool{false, true} {
				for _, v0 := range []bool{false, true} {
					if v0 && !pbl {
						continue
					}
					lt := pb.Data_File
					if pbl && nbs {
						lt = pb.Data_Raw
					}
					out = append(out, handFileOpts{Width: 3, PBLeaves: pbl, NoBlockSize: nbs, NoFileSize: nfs, V0: v0, LeafType: lt})
				}
			}
		}
	}
	return out
}

func handName(o handFileOpts) string {
	s := "raw"
	if o.PBLeaves {
		s = "pb" + o.LeafType.String()
	}
	if o.NoBlockSize {
		s += "-nobs"
	}
	if o.NoFileSize {
		s += "-nofs"
	}
	if o.V0 {
		s += "-v0"
	}
	if o.InteriorRaw {
		s += "-rawinterior"
	}
	if o.HighMode {
		s += "-highmode"
	}
	if o.EmptyData {
		s += "-emptydata"
	}
	if o.ExtraBlockSize {
		s += "-extrablocksize"
	}
	if o.FewerBlockSizes {
		s += "-fewerblocksizes"
	}
	if o.LeafMtimes {
		s += "-leafmtimes"
	}
	if o.InlineOdd {
		s += "-inlineodd"
	}
	if o.PBTsize != 0 {
		s += []string{"", "-tsize0", "-tsizeabsent", "-tsize1"}[o.PBTsize]
	}
	return s
}

type iterT = unixfsiter.UnixFSDir__Itr

func cidLink(c cid.Cid) ipld.Link { return cidlink.Link{Cid: c} }

func boolInt(b bool) int {
	if b {
		return 1
	}
	return 0
}
