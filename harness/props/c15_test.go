package props

import (
	"fmt"
	"reflect"
	"sort"
	"strings"
	"testing"

	pb "github.com/ipfs/boxo/ipld/unixfs/pb"
	"github.com/ipfs/go-cid"
	"github.com/ipfs/go-unixfsnode/data/builder"
	dagpb "github.com/ipld/go-codec-dagpb"
	"github.com/ipld/go-ipld-prime"
	"github.com/ipld/go-ipld-prime/datamodel"
	cidlink "github.com/ipld/go-ipld-prime/linking/cid"
	"github.com/ipld/go-ipld-prime/node/basicnode"
	"github.com/multiformats/go-multihash"

	"verifharness/gen"
	"verifharness/mon"
	"verifharness/oracle"
	"verifharness/store"
)

// checkMapContract is the C15 monitor for one map-kind node.
func checkMapContract(c *mon.Case, what string, node ipld.Node, probes []string, maxYield int) (pairs int) {
	if node.Kind() != datamodel.Kind_Map {
		c.Violation("C15|not-a-map", "%s: kind %v", what, node.Kind())
		return
	}
	yielded := map[string]map[string]bool{} // key -> set of link cids
	var order []string
	ok := c.Guard("MapIterator", func() {
		it := node.MapIterator()
		if it == nil {
			c.Violation("C15|nil-iterator", "%s: MapIterator() is nil", what)
			return
		}
		for !it.Done() {
			k, v, err := it.Next()
			if err != nil {
				c.Violation("C15|iter-error", "%s: Next: %v after %d pairs", what, err, pairs)
				return
			}
			pairs++
			if pairs > maxYield {
				c.Violation("C15|iter-too-long", "%s: more than %d pairs", what, maxYield)
				return
			}
			ks, err := k.AsString()
			if err != nil {
				c.Violation("C15|iter-key", "%s: key is not a string: %v", what, err)
				return
			}
			cc, err := asCid(v)
			if err != nil {
				c.Violation("C15|iter-value", "%s: value under %q is not a link: %v", what, ks, err)
				return
			}
			if yielded[ks] == nil {
				yielded[ks] = map[string]bool{}
				order = append(order, ks)
			}
			yielded[ks][cc.String()] = true
		}
		if !it.Done() {
			c.Violation("C15|not-done", "%s: Done() is false after the last pair", what)
		}
		// after the end: an error or a value, and still done
		it.Next()
		if !it.Done() {
			c.Violation("C15|not-done", "%s: Done() turned false after an over-read", what)
		}
	})
	if !ok {
		return
	}
	var length int64
	c.Guard("Length", func() { length = node.Length() })
	if int64(pairs) != length {
		c.Violation("C15|length-vs-pairs", "%s: iteration yielded %d pairs, Length() reports %d", what, pairs, length)
	}
	// a consumer that calls Next exactly Length() times without polling Done(), keeps the yielded
	// nodes and only looks at them afterwards
	c.Guard("MapIterator (Length() x Next, values inspected afterwards)", func() {
		it := node.MapIterator()
		if it == nil {
			return
		}
		type kv struct{ k, v ipld.Node }
		var kept []kv
		for i := int64(0); i < length && i < int64(maxYield); i++ {
			k, v, err := it.Next()
			if err != nil {
				c.Violation("C15|iter-error|no-done-polling", "%s: Next #%d of %d failed although Length() entries were promised: %v", what, i+1, length, err)
				return
			}
			kept = append(kept, kv{k, v})
		}
		if !it.Done() {
			c.Violation("C15|not-done", "%s: Done() is false after Length() = %d calls of Next", what, length)
		}
		for i, p := range kept {
			ks, err := p.k.AsString()
			if err != nil {
				c.Violation("C15|iter-key", "%s: kept key #%d is not a string: %v", what, i, err)
				return
			}
			cc, err := asCid(p.v)
			if err != nil || !yielded[ks][cc.String()] {
				c.Violation("C15|kept-value-changed", "%s: the value node yielded under %q, inspected after the iteration ended, is %v (%v), which the eager pass did not see under that key", what, ks, cc, err)
				return
			}
		}
		// every key's kept value must be one of the links of that key, and keys must be covered as in the eager pass
		if len(kept) != pairs {
			c.Violation("C15|iter-styles-differ", "%s: %d pairs with Done() polling, %d when calling Next Length() times", what, pairs, len(kept))
		}
	})
	// native iterator agrees with the map iterator
	if ni, isNative := node.(interface{ Iterator() *iterT }); isNative {
		c.Guard("native Iterator", func() {
			it := ni.Iterator()
			n := 0
			for !it.Done() {
				k, v := it.Next()
				if k == nil || v == nil {
					c.Violation("C15|native-iter-nil", "%s: native iterator returned nil before Done after %d pairs", what, n)
					return
				}
				n++
				if n > maxYield {
					return
				}
				if !yielded[k.String()][linkCid(v.Link()).String()] {
					c.Violation("C15|native-iter-differs", "%s: native iterator yielded %q -> %v which the map iterator did not", what, k.String(), v.Link())
					return
				}
			}
			if n != pairs {
				c.Violation("C15|native-iter-differs", "%s: native iterator yielded %d pairs, map iterator %d", what, n, pairs)
			}
		})
	}
	lookup4 := func(key string) (found [5]bool, links [5]string, errs [5]error) {
		get := func(i int, f func() (ipld.Node, error)) {
			c.Guard("lookup", func() {
				v, err := f()
				errs[i] = err
				if err == nil && v != nil {
					if rv := reflect.ValueOf(v); rv.Kind() == reflect.Ptr && rv.IsNil() {
						// a nil pointer in a non-nil interface, with a nil error: reported as found
						found[i] = true
						links[i] = fmt.Sprintf("a nil %T pointer returned with a nil error", v)
						return
					}
					// a node and no error is an answer "found", whatever the node turns out to be
					found[i] = true
					if cc, e := asCid(v); e == nil {
						links[i] = cc.String()
					} else {
						links[i] = fmt.Sprintf("a %v node that is not a link (%v)", v.Kind(), e)
					}
				}
			})
		}
		get(0, func() (ipld.Node, error) { return node.LookupByString(key) })
		get(1, func() (ipld.Node, error) { return node.LookupByNode(basicnode.NewString(key)) })
		get(2, func() (ipld.Node, error) { return node.LookupBySegment(datamodel.PathSegmentOfString(key)) })
		if nl, ok := node.(nativeLookup); ok {
			c.Guard("native Lookup", func() {
				l := nl.Lookup(pbString(key))
				if l != nil {
					found[3] = true
					links[3] = linkCid(l.Link()).String()
				}
			})
		} else {
			found[3], links[3] = found[0], links[0]
		}
		get(4, func() (ipld.Node, error) { return node.LookupByNode(pbString(key)) })
		c.Count("lookups_crosschecked", 5)
		return
	}
	keys := append([]string(nil), order...)
	if len(keys) > 400 {
		keys = keys[:400]
	}
	for _, k := range keys {
		found, links, errs := lookup4(k)
		for i := 0; i < 5; i++ {
			if !found[i] {
				c.Violation(fmt.Sprintf("C15|yielded-key-not-found|entry%d", i), "%s: key %q was yielded by iteration but lookup entry point %d does not find it (%v)", what, k, i, errs[i])
				break
			}
			if !yielded[k][links[i]] {
				c.Violation(fmt.Sprintf("C15|lookup-link-not-yielded|entry%d", i), "%s: lookup %d of %q resolves to %s which was never yielded under that key", what, i, k, links[i])
				break
			}
			if links[i] != links[0] {
				c.Violation("C15|entry-points-disagree", "%s: key %q: LookupByString -> %s, entry point %d -> %s", what, k, links[0], i, links[i])
				break
			}
		}
	}
	for _, p := range probes {
		if _, ok := yielded[p]; ok {
			continue
		}
		found, links, _ := lookup4(p)
		for i := 0; i < 5; i++ {
			if found[i] {
				c.Violation(fmt.Sprintf("C15|unyielded-key-found|entry%d", i), "%s: key %q was never yielded but lookup entry point %d finds %s", what, p, i, links[i])
				break
			}
		}
	}
	return
}

func listClass(links []pbLinkSpec) string {
	var cl []string
	seen := map[string]bool{}
	nameless, empty, dup, unsorted := false, false, false, false
	prev := ""
	for i, l := range links {
		n := ""
		if l.Name == nil {
			nameless = true
		} else {
			n = *l.Name
			if n == "" {
				empty = true
			}
		}
		if seen[n] {
			dup = true
		}
		seen[n] = true
		if i > 0 && n < prev {
			unsorted = true
		}
		prev = n
	}
	for k, v := range map[string]bool{"nameless": nameless, "empty": empty, "dup": dup, "unsorted": unsorted} {
		if v {
			cl = append(cl, k)
		}
	}
	sort.Strings(cl)
	if len(cl) == 0 {
		return "plain"
	}
	return strings.Join(cl, "+")
}

func TestC15(t *testing.T) {
	r := mon.Start(t, "C15")
	defer r.Close()
	for _, f := range []int{8, 16, 256} {
		for _, byRef := range []bool{false, true} {
			f, byRef := f, byRef
			r.Case(fmt.Sprintf("alias-to-own-shard/f%d/ref=%v", f, byRef), map[string]any{"fanout": f, "reference_written": byRef}, func(c *mon.Case) {
				aliasToOwnShardCase(c, f, byRef)
			})
		}
	}
	// link lists beyond 2^16 links (short names, one small target): positions do not fit 16 bits
	for vi, view := range []string{"plain-directory", "generic-link-map"} {
		vi, view := vi, view
		r.Case("very-wide-list/"+view, map[string]any{"links": 70001, "view": view}, func(c *mon.Case) {
			st := store.New()
			target := st.PutBlock(1, cid.Raw, []byte("t"))
			other := st.PutBlock(1, cid.Raw, []byte("u"))
			const n = 70001
			links := make([]pbLinkSpec, n)
			for j := range links {
				links[j] = pbLinkSpec{Name: strp(fmt.Sprintf("e%05d", j)), Cid: target}
				if j%1000 == 999 || j >= 65530 {
					links[j].Cid = other
				}
			}
			dirT := pb.Data_Directory
			var blk []byte
			if vi == 0 {
				blk = encodePB(mustMarshal(&pb.Data{Type: &dirT}), true, links)
			} else {
				blk = encodePB(nil, false, links)
			}
			pn, err := decodePB(blk)
			if err != nil {
				c.Harness("decode of hand-encoded block: %v", err)
				return
			}
			node, err := reify(st.LinkSystem(false), pn)
			if err != nil {
				c.Violation("C15|reify", "%s over %d links: %v", view, n, err)
				return
			}
			c.Count("lists", 1)
			c.Count("lists_beyond_65536_links", 1)
			if l := node.Length(); l != n {
				c.Violation("C15|length-vs-pairs", "%s over %d links: Length() = %d", view, n, l)
			}
			yielded := 0
			c.Guard("MapIterator", func() {
				it := node.MapIterator()
				for !it.Done() && yielded <= n {
					if _, _, err := it.Next(); err != nil {
						c.Violation("C15|iter-error", "%s over %d links: Next after %d pairs: %v", view, n, yielded, err)
						return
					}
					yielded++
				}
			})
			if yielded != n {
				c.Violation("C15|length-vs-pairs", "%s over %d links: iteration yielded %d pairs", view, n, yielded)
			}
			for _, j := range []int{0, 1, 999, 32767, 32768, 65534, 65535, 65536, 65537, 65999, 66000, 69999, 70000} {
				name := fmt.Sprintf("e%05d", j)
				want := links[j].Cid
				for ep := 0; ep < 4; ep++ {
					var v ipld.Node
					var err error
					c.Guard("lookup", func() {
						switch ep {
						case 0:
							v, err = node.LookupByString(name)
						case 1:
							v, err = node.LookupBySegment(datamodel.PathSegmentOfString(name))
						case 2:
							v, err = node.LookupByNode(basicnode.NewString(name))
						default:
							v, err = node.LookupByNode(pbString(name))
						}
					})
					c.Count("lookups_cross_checked", 1)
					if err != nil {
						c.Violation(fmt.Sprintf("C15|yielded-key-not-found|entry%d", ep), "%s over %d links: key %q (position %d) was yielded but lookup entry point %d reports %v", view, n, name, j, ep, err)
						break
					}
					if got, e := asCid(v); e != nil || !got.Equals(want) {
						c.Violation("C15|lookup-link-not-yielded", "%s over %d links: key %q (position %d) resolves to %v, yielded with %v", view, n, name, j, got, want)
						break
					}
				}
			}
			if _, err := node.LookupByString("e70001"); err == nil {
				c.Violation("C15|unyielded-key-found", "%s over %d links: a key that was never yielded is found", view, n)
			}
			c.Sig("very-wide-list|"+view, true)
		})
	}
	nb := r.Pick(160, 6000)
	for b := 0; b < nb; b++ {
		b := b
		r.Case(fmt.Sprintf("lists/%d", b), map[string]any{"batch": b, "lists": 24}, func(c *mon.Case) {
			rr := c.Rand()
			st := store.New()
			for i := 0; i < 24; i++ {
				n := []int{0, 1, 2, 3, 5, 8, 13, 40}[rr.Intn(8)]
				if i == 23 {
					// one wide list per batch (wide nodes tempt implementations into indexes and caches)
					n = []int{64, 200, 1024, 1025, 3000}[b%5]
					if r.Quick() && n > 1100 {
						n = 1100
					}
					c.Count("wide_lists", 1)
				}
				pool := []string{"a", "b", "c", "A", "", "dup", "dup", "z", "ä", "a b", "0", "10", "9", "aa", "ab", "B"}
				var links []pbLinkSpec
				for j := 0; j < n; j++ {
					target := st.PutBlock(1, cid.Raw, []byte(fmt.Sprintf("t-%d-%d-%d", b, i, j)))
					if rr.Intn(6) == 0 && j > 0 {
						target = links[rr.Intn(len(links))].Cid // same target under another name
					}
					l := pbLinkSpec{Cid: target}
					switch rr.Intn(8) {
					case 0: // absent name
					case 1, 2, 3:
						l.Name = strp(pool[rr.Intn(len(pool))])
					default:
						l.Name = strp(fmt.Sprintf("n%d", rr.Intn(3*n+1)))
					}
					if rr.Intn(3) != 0 {
						l.Tsize = u64p(uint64(rr.Intn(100)))
					}
					links = append(links, l)
				}
				switch rr.Intn(4) {
				case 0:
					sort.SliceStable(links, func(x, y int) bool { return nameOf(links[x]) < nameOf(links[y]) })
				case 1:
					sort.SliceStable(links, func(x, y int) bool { return nameOf(links[x]) > nameOf(links[y]) })
				}
				class := listClass(links)
				dirT := pb.Data_Directory
				probes := append([]string{"", "a", "nope", "n0", "dup ", "DUP", "b", "Links", "Data", "Hash", "Name", "Tsize"}, pool...)
				for vi, view := range []struct {
					name    string
					data    []byte
					hasData bool
				}{
					{"plain-directory", mustMarshal(&pb.Data{Type: &dirT}), true},
					{"generic-link-map", nil, false},
					{"symlink-link-map", mustMarshal(&pb.Data{Type: pbType(4), Data: []byte("x")}), true},
				} {
					if vi == 2 && rr.Intn(3) != 0 {
						continue
					}
					blk := encodePB(view.data, view.hasData, links)
					// (a) decoded from a hand-encoded block: link order as on the wire
					pn, err := decodePB(blk)
					if err != nil {
						c.Harness("decode of hand-encoded block: %v", err)
						continue
					}
					node, err := reify(st.LinkSystem(false), pn)
					if err != nil {
						c.Violation("C15|reify", "%s over %s list: %v", view.name, class, err)
						continue
					}
					c.Count("lists", 1)
					what := fmt.Sprintf("%s over a %s list of %d links (hand-encoded)", view.name, class, len(links))
					checkMapContract(c, what, node, probes, len(links)+8)
					lc := "0"
					if len(links) >= 2 {
						lc = "2+"
					} else if len(links) == 1 {
						lc = "1"
					}
					c.Sig(fmt.Sprintf("%s|%s|%s|decoded", view.name, class, lc), len(links) >= 2)
					// (b) built in memory through the dag-pb builder
					if mem := buildPBInMemory(view.data, view.hasData, links); mem != nil {
						node2, err := reify(st.LinkSystem(false), mem)
						if err == nil {
							c.Count("lists", 1)
							checkMapContract(c, strings.Replace(what, "hand-encoded", "in-memory", 1), node2, probes, len(links)+8)
							c.Sig(fmt.Sprintf("%s|%s|%s|memory", view.name, class, lc), len(links) >= 2)
						}
					}
				}
			}
		})
	}
	// well-formed sharded directories from this library and from the reference
	i := 0
	seen := map[string]bool{}
	for _, d := range dirCases(r) {
		d := d
		if d.Builder != "sharded" || d.N > 2000 || seen[d.id()] {
			continue
		}
		seen[d.id()] = true
		i++
		if r.Quick() && i%3 != 0 {
			continue
		}
		r.Case("sharded/"+d.id(), d, func(c *mon.Case) {
			names := namesFor(c, d)
			// one member has a twin with the very same 64-bit hash that is NOT a member: it is probed
			// after the member has been found
			twins := gen.CollidingNames(c.Rand(), 2)
			inSet := false
			for _, n := range names {
				if n == twins[0] || n == twins[1] {
					inSet = true
				}
			}
			if !inSet && len(names) > 0 {
				names = append(names, twins[0])
				c.Count("hash_twin_probes", 1)
			}
			for wi, writer := range []string{"builder", "reference"} {
				st := store.New()
				entries, model, sizes := childEntries(st, names)
				var root cid.Cid
				if wi == 0 {
					l, _, err := builder.BuildUnixFSShardedDirectory(d.Fanout, multihash.MURMUR3X64_64, entries, st.LinkSystem(false))
					if err != nil {
						return
					}
					root = linkCid(l)
				} else {
					rs, err := oracle.NewRefShard(st, d.Fanout)
					if err != nil {
						return
					}
					for _, n := range names {
						if err := rs.Set(n, model[n], sizes[n]); err != nil {
							return
						}
					}
					if root, _, err = rs.Node(); err != nil {
						return
					}
				}
				node, err := loadReified(st.LinkSystem(false), root)
				if err != nil {
					c.Violation("C15|reify", "sharded directory by %s: %v", writer, err)
					continue
				}
				var probes []string
				for _, n := range names[:min(len(names), 40)] {
					probes = append(probes, n+"x", oracle0(d.Fanout)+n)
				}
				probes = append(probes, "", "0", "00", "000")
				if !inSet {
					probes = append(probes, twins[1])
				}
				// a transient load failure during the first Length() must not leave a wrong memoised count behind
				if _, shards, _, err := walkerFor(st).HamtWalk(root); err == nil && len(shards) > 2 {
					ls := st.LinkSystem(false)
					raw, _ := loadRaw(ls, root)
					for k := 1; k <= min(len(shards)-1, 10); k++ {
						n2, err := reify(ls, raw)
						if err != nil {
							break
						}
						st.FailReadAt = k
						st.FailErr = store.ErrInjected
						st.ResetLog()
						if k%2 == 1 {
							c.Guard("Length with transient fault", func() { n2.Length() })
						} else {
							// ... nor a listing that carried on past the shard it could not load
							c.Guard("listing with transient fault", func() {
								it := n2.MapIterator()
								for i := 0; !it.Done() && i < len(names)+len(shards)+8; i++ {
									it.Next()
								}
							})
							c.Count("transient_listing_faults", 1)
						}
						st.ClearFaults()
						c.Count("transient_length_faults", 1)
						checkMapContract(c, fmt.Sprintf("fanout-%d sharded directory (by the %s) after load #%d failed once during the first Length()", d.Fanout, writer, k), n2, nil, len(names)+8)
					}
				}
				c.Count("sharded_dirs", 1)
				pairs := checkMapContract(c, fmt.Sprintf("fanout-%d sharded directory of %d entries written by the %s", d.Fanout, len(names), writer), node, probes, len(names)+8)
				if pairs != len(names) {
					c.Violation("C15|sharded-pairs", "sharded directory by %s: %d pairs for %d entries", writer, pairs, len(names))
				}
				c.Sig(fmt.Sprintf("sharded|%s|f%d|%s|%s", writer, d.Fanout, d.Family, sizeClass(len(names))), len(names) >= 2)
			}
		})
	}
}

// aliasToOwnShardCase: a sharded directory one of whose ENTRIES points at the block of one of the
// directory's own child shards (an entry may link to any CID). Entry and child shard sit in the same
// shard node, so whatever the reader keeps per link target is shared by the two.
func aliasToOwnShardCase(c *mon.Case, fanout int, byRef bool) {
	rr := c.Rand()
	st := store.New()
	names := gen.Names(rr, gen.FamASCII, max(fanout, 14))
	_, model, sizes := childEntries(st, names)
	build := func(m map[string]cid.Cid) (cid.Cid, error) {
		if byRef {
			rs, err := oracle.NewRefShard(st, fanout)
			if err != nil {
				return cid.Undef, err
			}
			for _, n := range sortedKeys(m) {
				if err := rs.Set(n, m[n], 7); err != nil {
					return cid.Undef, err
				}
			}
			root, _, err := rs.Node()
			return root, err
		}
		var es []dagpb.PBLink
		for _, n := range sortedKeys(m) {
			e, err := builder.BuildUnixFSDirectoryEntry(n, 7, cidlink.Link{Cid: m[n]})
			if err != nil {
				return cid.Undef, err
			}
			es = append(es, e)
		}
		l, _, err := builder.BuildUnixFSShardedDirectory(fanout, multihash.MURMUR3X64_64, es, st.LinkSystem(false))
		if err != nil {
			return cid.Undef, err
		}
		return linkCid(l), nil
	}
	_ = sizes
	root, err := build(model)
	if err != nil {
		c.Harness("build: %v", err)
		return
	}
	pad := oracle.PadLen(uint64(fanout))
	childOf := func(root cid.Cid) []cid.Cid {
		var out []cid.Cid
		if rn, err := walkerFor(st).Node(root); err == nil {
			for _, l := range rn.Links {
				if len(l.Name) == pad {
					out = append(out, l.Cid)
				}
			}
		}
		return out
	}
	children := childOf(root)
	if len(children) == 0 {
		c.Count("alias_cases_without_a_fixture", 1)
		return
	}
	for try := 0; try < 300; try++ {
		alias := fmt.Sprintf("alias-%d", try)
		target := children[try%len(children)]
		m2 := map[string]cid.Cid{alias: target}
		for k, v := range model {
			m2[k] = v
		}
		root2, err := build(m2)
		if err != nil {
			continue
		}
		// the alias must have landed in the root itself (as a value) next to the still unchanged child shard
		still, asValue := false, false
		if rn, err := walkerFor(st).Node(root2); err == nil {
			for _, l := range rn.Links {
				if l.Cid.Equals(target) && len(l.Name) == pad {
					still = true
				}
				if l.Cid.Equals(target) && len(l.Name) > pad && l.Name[pad:] == alias {
					asValue = true
				}
			}
		}
		if !still || !asValue {
			continue
		}
		writer := "builder"
		if byRef {
			writer = "reference"
		}
		for order := 0; order < 3; order++ {
			node, err := loadReified(st.LinkSystem(false), root2)
			if err != nil {
				c.Violation("C15|reify", "%v", err)
				return
			}
			// warm the node in different ways first: nothing, a lookup below the child shard, a Length()
			switch order {
			case 1:
				for _, n := range names {
					if p, _, _ := walkerFor(st).HamtLookupPath(root2, n); len(p) > 0 && p[0].Equals(target) {
						node.LookupByString(n)
						break
					}
				}
			case 2:
				node.Length()
			}
			c.Count("sharded_dirs", 1)
			c.Count("dirs_with_an_entry_pointing_at_their_own_child_shard", 1)
			pairs := checkMapContract(c, fmt.Sprintf("fanout-%d sharded directory (by the %s) of %d entries, one of which (%q) links to the block of one of the root's own child shards, warm-up %d", fanout, writer, len(m2), alias, order), node, []string{alias + "x", "alias", ""}, len(m2)+8)
			if pairs != len(m2) {
				c.Violation("C15|sharded-pairs", "sharded directory with an entry that links to one of its own child shards: %d pairs for %d entries (warm-up %d)", pairs, len(m2), order)
			}
			if v, err := node.LookupByString(alias); err != nil {
				c.Violation("C15|yielded-key-not-found|entry0", "entry %q, which links to the block of a child shard of the same directory, is not found (warm-up %d): %v", alias, order, err)
			} else if got, e := asCid(v); e != nil || !got.Equals(target) {
				c.Violation("C15|lookup-link-not-yielded", "entry %q resolves to %v, want %v", alias, got, target)
			}
		}
		c.Sig(fmt.Sprintf("alias-to-own-shard|f%d|%s", fanout, writer), true)
		return
	}
	c.Count("alias_cases_without_a_fixture", 1) // no candidate name landed in the root next to an unchanged child: nothing to judge
}

func oracle0(fanout int) string { return strings.Repeat("0", oracle.PadLen(uint64(fanout))) }

func pbType(t int32) *pb.Data_DataType { x := pb.Data_DataType(t); return &x }

func nameOf(l pbLinkSpec) string {
	if l.Name == nil {
		return ""
	}
	return *l.Name
}

// buildPBInMemory assembles a PBNode through the dag-pb node builder (no
// encoding step, so no sorting).
func buildPBInMemory(data []byte, hasData bool, links []pbLinkSpec) (out ipld.Node) {
	defer func() {
		if recover() != nil {
			out = nil
		}
	}()
	nb := dagpb.Type.PBNode.NewBuilder()
	ma, _ := nb.BeginMap(2)
	ma.AssembleKey().AssignString("Links")
	la, _ := ma.AssembleValue().BeginList(int64(len(links)))
	for _, l := range links {
		lm, _ := la.AssembleValue().BeginMap(3)
		lm.AssembleKey().AssignString("Hash")
		lm.AssembleValue().AssignLink(cidLink(l.Cid))
		if l.Name != nil {
			lm.AssembleKey().AssignString("Name")
			lm.AssembleValue().AssignString(*l.Name)
		}
		if l.Tsize != nil {
			lm.AssembleKey().AssignString("Tsize")
			lm.AssembleValue().AssignInt(int64(*l.Tsize))
		}
		if err := lm.Finish(); err != nil {
			return nil
		}
	}
	if err := la.Finish(); err != nil {
		return nil
	}
	if hasData {
		ma.AssembleKey().AssignString("Data")
		ma.AssembleValue().AssignBytes(data)
	}
	if err := ma.Finish(); err != nil {
		return nil
	}
	return nb.Build()
}

var _ = gen.FamASCII
