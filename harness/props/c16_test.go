package props

import (
	"bytes"
	"context"
	"fmt"
	"io"
	iofs "io/fs"
	"os"
	"path/filepath"
	"sync"
	"syscall"
	"testing"

	"github.com/ipfs/go-cid"
	"github.com/ipfs/go-unixfsnode/data/builder"
	quickbuilder "github.com/ipfs/go-unixfsnode/data/builder/quick"
	dagpb "github.com/ipld/go-codec-dagpb"
	"github.com/ipld/go-ipld-prime"
	cidlink "github.com/ipld/go-ipld-prime/linking/cid"
	"github.com/multiformats/go-multihash"

	"verifharness/gen"
	"verifharness/mon"
	"verifharness/oracle"
	"verifharness/store"
)

// c16Build is one build that can be re-run on a fresh copy of its base store.
type c16Build struct {
	Name  string
	Kind  string
	Base  *store.Store // pre-existing blocks (entry targets)
	Run   func(ls *ipld.LinkSystem) (ipld.Link, uint64, error)
	Quick bool // quick builder: its methods panic on a failed write; a panic or an error both count as reporting it
	// ErrPaths: for an import from disk, places inside the imported tree; the block store may live in
	// one of them (a repository inside the project directory), and its failures then name paths there
	ErrPaths []string
}

// installOrderHook makes the store check, at every commit, that every link of
// the block being committed is already in the store.
func installOrderHook(c *mon.Case, st *store.Store, what string) {
	st.OnCommit = func(s *store.Store, cc cid.Cid, data []byte) {
		c.Count("commits_checked", 1)
		n, err := oracle.Decode(cc, data)
		if err != nil {
			c.Violation("C16|undecodable-block", "%s: committed block %s does not decode: %v", what, cc, err)
			return
		}
		for i, l := range n.Links {
			if !s.HasLocked(l.Cid) {
				c.Violation("C16|parent-before-child", "%s: block %s is being committed while its link %d (%q -> %s) is not in the store yet", what, cc, i, l.Name, l.Cid)
				return
			}
		}
	}
}

func danglingIn(st *store.Store) string {
	for _, cc := range st.Cids() {
		raw, _ := st.Get(cc)
		n, err := oracle.Decode(cc, raw)
		if err != nil {
			continue
		}
		for _, l := range n.Links {
			if !st.Has(l.Cid) {
				return fmt.Sprintf("block %s links to %s which is not in the store", cc, l.Cid)
			}
		}
	}
	return ""
}

func kClass(k, w int) string {
	switch {
	case k == 1:
		return "first"
	case k == w:
		return "last"
	}
	return "middle"
}

func checkBuild(c *mon.Case, b c16Build) {
	// clean run with the ordering invariant
	st := b.Base.Clone()
	st.Logging = true
	installOrderHook(c, st, b.Name)
	var l ipld.Link
	var err error
	if !c.Guard(b.Name, func() { l, _, err = b.Run(st.LinkSystem(false)) }) {
		return
	}
	if err != nil {
		c.Violation("C16|build-error", "%s failed without injected faults: %v", b.Name, err)
		return
	}
	if l == nil {
		c.Violation("C16|nil-link", "%s returned a nil link and no error", b.Name)
		return
	}
	if _, werr := walkerFor(st).TreeSize(linkCid(l)); werr != nil {
		c.Violation("C16|returned-link-incomplete", "%s returned %s but its DAG is not completely stored: %v", b.Name, l, werr)
	}
	W := st.WOpens
	writes := st.Writes
	// the same build once more, writing into a FRESH store while the first store serves reads: every
	// block of the returned DAG has to be committed to the store the build writes to
	if !b.Quick {
		fresh := b.Base.Clone()
		installOrderHook(c, fresh, b.Name+" (fresh write store, old store serving reads)")
		var l2 ipld.Link
		var err2 error
		if c.Guard(b.Name+" split stores", func() { l2, _, err2 = b.Run(store.SplitLinkSystem(st, fresh)) }) {
			c.Count("split_store_builds", 1)
			if err2 != nil {
				c.Violation("C16|build-error", "%s with separate read and write stores failed: %v", b.Name, err2)
			} else if l2 == nil || !linkCid(l2).Equals(linkCid(l)) {
				c.Violation("C16|split-store-result", "%s with separate read and write stores returned %v, first build %v", b.Name, l2, l)
			} else if _, werr := walkerFor(fresh).TreeSize(linkCid(l2)); werr != nil {
				c.Violation("C16|returned-link-incomplete", "%s writing into a fresh store returned %s but that store does not hold its whole DAG: %v", b.Name, l2, werr)
			}
		}
	}
	c.Count("builds", 1)
	c.Max("max_writes_per_build", int64(W))
	c.Sig(fmt.Sprintf("%s|ordering|w%s", b.Kind, sizeClass(W)), W >= 2)
	// fault enumeration (the quick builder's methods panic on a failed write: there a panic counts as the report): k-th write-open, k-th commit, k-th Write call
	type plan struct {
		kind string
		n    int
		set  func(s *store.Store, k int)
	}
	plans := []plan{
		{"wopen", W, func(s *store.Store, k int) { s.FailWOpenAt = k }},
		{"commit", W, func(s *store.Store, k int) { s.FailCommitAt = k }},
		{"write", writes, func(s *store.Store, k int) { s.FailWriteAt = k }},
	}
	for _, p := range plans {
		ks := make([]int, 0, p.n)
		for k := 1; k <= p.n; k++ {
			ks = append(ks, k)
		}
		if p.kind == "write" && len(ks) > 40 {
			// Write calls are many per block; sample them (write-open and commit are exhaustive)
			step := len(ks)/40 + 1
			var s2 []int
			for i := 0; i < len(ks); i += step {
				s2 = append(s2, ks[i])
			}
			ks = append(s2, p.n)
		}
		for _, k := range ks {
			fs := b.Base.Clone()
			installOrderHook(c, fs, fmt.Sprintf("%s with %s #%d failing", b.Name, p.kind, k))
			p.set(fs, k)
			if p.kind == "write" {
				fs.FailWriteStyle = k % 3 // (0, err), (len(p), err), a short write
			}
			// rotate the error kind: a plain error, and kinds a wrapper might take for success or end of input
			fs.FailErr = []error{nil, &iofs.PathError{Op: "open", Path: "/blocks/x", Err: syscall.EEXIST}, io.ErrShortWrite, context.Canceled, iofs.ErrExist, store.ErrNotFound{}, &iofs.PathError{Op: "open", Path: "/blocks/x", Err: syscall.ENOENT}, io.EOF, tempErr{}, syscall.EAGAIN, os.ErrDeadlineExceeded}[k%11]
			if len(b.ErrPaths) > 0 && k%2 == 1 {
				// the failing store sits inside the tree that is being imported
				fs.FailErr = &iofs.PathError{Op: []string{"open", "rename", "mkdir"}[k%3], Path: filepath.Join(b.ErrPaths[(k/2)%len(b.ErrPaths)], ".repo", "blocks", "AF", fmt.Sprintf("tmp-%d", k)), Err: []error{syscall.ENOENT, iofs.ErrNotExist}[(k/2)%2]}
				c.Count("faults_naming_paths_inside_the_imported_tree", 1)
			}
			var fl ipld.Link
			var ferr error
			if !c.Guard(fmt.Sprintf("%s with %s #%d failing", b.Name, p.kind, k), func() {
				if b.Quick {
					defer func() {
						if pv := recover(); pv != nil {
							fl, ferr = nil, fmt.Errorf("quick builder panicked: %v", pv)
							c.Count("quick_builder_panics_as_reports", 1)
						}
					}()
				}
				fl, _, ferr = b.Run(fs.LinkSystem(false))
			}) {
				continue
			}
			c.Count("faults_injected", 1)
			if fs.InjectedHits == 0 {
				// sharded builds write in map order: the number of Write calls can vary a little
				if p.kind != "write" {
					c.Harness("%s: %s #%d of %d was never reached", b.Name, p.kind, k, p.n)
				}
				continue
			}
			if ferr == nil {
				c.Violation("C16|write-failure-swallowed|"+p.kind, "%s: %s #%d of %d failed but the build returned no error (link %v)", b.Name, p.kind, k, p.n, fl)
			} else if fl != nil {
				c.Violation("C16|link-with-error|"+p.kind, "%s: %s #%d of %d failed; the build returned error %q together with a non-nil link %v", b.Name, p.kind, k, p.n, ferr, fl)
			}
			if d := danglingIn(fs); d != "" {
				c.Violation("C16|dangling-after-failure|"+p.kind, "%s: after %s #%d failed: %s", b.Name, p.kind, k, d)
			}
			if ferr == nil && fl != nil {
				if _, werr := walkerFor(fs).TreeSize(linkCid(fl)); werr != nil {
					c.Violation("C16|returned-link-incomplete", "%s with %s #%d failing returned %s whose DAG is incomplete: %v", b.Name, p.kind, k, fl, werr)
				}
			}
			c.Sig(fmt.Sprintf("%s|%s|%s", b.Kind, p.kind, kClass(k, p.n)), W >= 2)
		}
	}
}

func TestC16(t *testing.T) {
	r := mon.Start(t, "C16")
	defer r.Close()
	var builds []func(c *mon.Case) c16Build
	fileB := func(w int, ch string, n int, kind string) {
		builds = append(builds, func(c *mon.Case) c16Build {
			content := gen.Content(c.Rand(), kind, n)
			return c16Build{Name: fmt.Sprintf("file w%d %s %d bytes (%s)", w, ch, n, kind), Kind: fmt.Sprintf("file-w%d", w), Base: store.New(), Run: func(ls *ipld.LinkSystem) (l ipld.Link, sz uint64, err error) {
				withWidth(w, func() { l, sz, err = builder.BuildUnixFSFile(bytes.NewReader(content), ch, ls) })
				return
			}}
		})
	}
	for _, w := range []int{2, 3} {
		for _, n := range []int{0, 1, 2, 3, 5, 9, 10, 17, 28} {
			fileB(w, "size-4", n*4-min(n, 1), "rand")
		}
	}
	fileB(2, "size-4", 40, "zero")
	// the same builds through a caller's encoders that stream a block into the writer in the four usual
	// ways (Write in pieces, WriteString, io.Copy from a plain reader, io.Copy from a bytes.Reader): a
	// failing Write has to surface whichever way the bytes travel
	for style := 0; style < 4; style++ {
		style := style
		builds = append(builds, func(c *mon.Case) c16Build {
			content := gen.Content(c.Rand(), "rand", 43)
			return c16Build{Name: fmt.Sprintf("file w3 size-4 43 bytes through encoders of style %d", style), Kind: fmt.Sprintf("file-styled%d", style), Base: store.New(), Run: func(ls *ipld.LinkSystem) (l ipld.Link, sz uint64, err error) {
				withWidth(3, func() { l, sz, err = builder.BuildUnixFSFile(bytes.NewReader(content), "size-4", store.StyledEncoders(ls, 0, style)) })
				return
			}}
		})
	}
	fileB(174, "size-1", 176, "rand")
	fileB(3, "rabin-16-32-64", 900, "rand")
	if !r.Quick() {
		for _, n := range []int{33, 65, 100, 349} {
			fileB(4, "size-2", n*2, "rand")
		}
		fileB(174, "size-1", 350, "rand")
		fileB(2, "", 600000, "rand")
	}
	builds = append(builds, func(c *mon.Case) c16Build {
		return c16Build{Name: "symlink", Kind: "symlink", Base: store.New(), Run: func(ls *ipld.LinkSystem) (ipld.Link, uint64, error) {
			return builder.BuildUnixFSSymlink("../some/target", ls)
		}}
	})
	dirB := func(bname string, fanout int, fam string, n int) {
		builds = append(builds, func(c *mon.Case) c16Build {
			base := store.New()
			d := dirCase{Builder: bname, Fanout: fanout, Family: fam, N: n, Shared: 30}
			names := namesFor(c, d)
			entries, model, sizes := childEntries(base, names)
			return c16Build{Name: fmt.Sprintf("%s directory fanout %d, %d entries (%s)", bname, fanout, len(names), fam), Kind: bname + fmt.Sprint(fanout), Base: base, Quick: bname == "quick",
				Run: func(ls *ipld.LinkSystem) (ipld.Link, uint64, error) {
					st := store.New()
					_ = st
					var root cid.Cid
					var sz uint64
					var err error
					switch bname {
					case "sharded":
						l, s, e := builder.BuildUnixFSShardedDirectory(fanout, multihash.MURMUR3X64_64, entries, ls)
						return l, s, e
					case "auto":
						l, s, e := builder.BuildUnixFSDirectory(entries, ls)
						return l, s, e
					default:
						err = quickbuilder.Store(ls, func(qb *quickbuilder.Builder) error {
							m := map[string]quickbuilder.Node{}
							for k, v := range model {
								m[k] = qnode{v, int64(sizes[k]), false}
							}
							f := qb.NewBytesFile([]byte("quick file content that is long enough"))
							m["extra-file"] = f
							nd := qb.NewMapDirectory(m)
							root = linkCid(nd.Link())
							s, _ := nd.Size()
							sz = uint64(s)
							return nil
						})
						if err != nil {
							return nil, 0, err
						}
						return cidLink(root), sz, err
					}
				}}
		})
	}
	for _, f := range []int{8, 16, 256} {
		dirB("sharded", f, "ascii", 3*f)
		dirB("sharded", f, "crafted", 4)
	}
	dirB("sharded", 8, "mixed", 120)
	// fanouts above 256 (never chosen automatically, legal when asked for), with child shards
	dirB("sharded", 512, "crafted", 4)
	dirB("sharded", 1024, "crafted", 4)
	dirB("sharded", 512, "ascii", 700)
	dirB("auto", 0, "mixed", 30)
	dirB("auto", 0, "ascii", 0)
	dirB("auto", 0, "long", 1030)
	dirB("quick", 0, "ascii", 20)
	dirB("quick", 0, "long", 1030)
	if !r.Quick() {
		for _, f := range []int{32, 64, 128, 512, 1024} {
			dirB("sharded", f, "ascii", 2*f)
		}
		dirB("sharded", 8, "ascii", 1000)
	}
	// recursive import whose root is a single file, an empty file, a symlink
	for _, what := range []string{"file-3-chunks", "file-1-chunk", "empty-file", "symlink"} {
		what := what
		builds = append(builds, func(c *mon.Case) c16Build {
			dir, err := os.MkdirTemp("", "verif-c16-")
			if err != nil {
				panic(err)
			}
			c.Run().T.Cleanup(func() { os.RemoveAll(dir) })
			root := filepath.Join(dir, "the-root")
			switch what {
			case "file-3-chunks":
				os.WriteFile(root, gen.Content(c.Rand(), "rand", 2*262144+777), 0o644)
			case "file-1-chunk":
				os.WriteFile(root, gen.Content(c.Rand(), "rand", 900), 0o644)
			case "empty-file":
				os.WriteFile(root, nil, 0o644)
			default:
				os.Symlink("some/where", root)
			}
			return c16Build{Name: "recursive import of a root that is a " + what, Kind: "recursive-root-" + what, Base: store.New(), Run: func(ls *ipld.LinkSystem) (ipld.Link, uint64, error) {
				return builder.BuildUnixFSRecursive(root, ls)
			}}
		})
	}
	// recursive filesystem import
	for i := 0; i < r.Pick(3, 10); i++ {
		i := i
		builds = append(builds, func(c *mon.Case) c16Build {
			dir, err := os.MkdirTemp("", "verif-c16-")
			if err != nil {
				panic(err)
			}
			c.Run().T.Cleanup(func() { os.RemoveAll(dir) })
			rr := c.Rand()
			root := filepath.Join(dir, "t")
			os.MkdirAll(filepath.Join(root, "a", "b"), 0o755)
			os.MkdirAll(filepath.Join(root, "empty-dir"), 0o755)
			os.WriteFile(filepath.Join(root, "f1"), gen.Content(rr, "rand", 1+rr.Intn(100)), 0o644)
			os.WriteFile(filepath.Join(root, "a", "big"), gen.Content(rr, "rand", 262144+rr.Intn(300000)), 0o644)
			os.WriteFile(filepath.Join(root, "a", "b", "empty"), nil, 0o644)
			os.Symlink("../f1", filepath.Join(root, "a", "lnk"))
			for k := 0; k < 3+rr.Intn(6); k++ {
				os.WriteFile(filepath.Join(root, "a", "b", fmt.Sprintf("f%d", k)), gen.Content(rr, "rand", rr.Intn(50)), 0o644)
			}
			return c16Build{Name: fmt.Sprintf("recursive import #%d", i), Kind: "recursive", Base: store.New(), ErrPaths: []string{root, filepath.Join(root, "a"), filepath.Join(root, "a", "b"), filepath.Join(root, "a", "big"), filepath.Join(root, "f1"), filepath.Join(root, "empty-dir")}, Run: func(ls *ipld.LinkSystem) (ipld.Link, uint64, error) {
				return builder.BuildUnixFSRecursive(root, ls)
			}}
		})
	}
	for i, mk := range builds {
		i, mk := i, mk
		r.Case(fmt.Sprintf("build/%d", i), map[string]any{"build": i}, func(c *mon.Case) {
			b := mk(c)
			checkBuild(c, b)
			c.Sample(map[string]any{"build": b.Name, "kind": b.Kind})
		})
	}
	// several builds at the same time, each into its own store: every returned DAG has to be complete
	// in the store of the build that returned it
	for i := 0; i < r.Pick(4, 30); i++ {
		i := i
		r.Case(fmt.Sprintf("concurrent-separate-stores/%d", i), map[string]any{"goroutines": 10, "round": i}, func(c *mon.Case) {
			rr := c.Rand()
			const G = 10
			contents := make([][]byte, G)
			for g := range contents {
				contents[g] = gen.Content(rr, "rand", 100+rr.Intn(2000))
			}
			old := builder.DefaultLinksPerBlock
			builder.DefaultLinksPerBlock = 3
			defer func() { builder.DefaultLinksPerBlock = old }()
			for rep := 0; rep < 10; rep++ {
				stores := make([]*store.Store, G)
				links := make([]ipld.Link, G)
				errs := make([]error, G)
				var wg sync.WaitGroup
				start := make(chan struct{})
				for g := 0; g < G; g++ {
					stores[g] = store.New()
					wg.Add(1)
					go func(g int) {
						defer wg.Done()
						defer func() {
							if p := recover(); p != nil {
								errs[g] = fmt.Errorf("panic: %v", p)
							}
						}()
						<-start
						links[g], _, errs[g] = builder.BuildUnixFSFile(bytes.NewReader(contents[g]), "size-11", stores[g].LinkSystem(false))
					}(g)
				}
				close(start)
				wg.Wait()
				c.Count("builds", G)
				c.Count("concurrent_builds_into_separate_stores", G)
				for g := 0; g < G; g++ {
					if errs[g] != nil || links[g] == nil {
						c.Violation("C16|build-error", "one of %d concurrent builds into separate stores failed: %v", G, errs[g])
						return
					}
					if _, werr := walkerFor(stores[g]).TreeSize(linkCid(links[g])); werr != nil {
						c.Violation("C16|returned-link-incomplete", "one of %d concurrent builds (each into its own store) returned %s, but its own store does not hold the whole DAG: %v", G, links[g], werr)
						return
					}
				}
			}
			c.Sig("concurrent-separate-stores", true)
		})
	}
	// one link system VALUE whose write storage is replaced between two builds: the second build's
	// blocks have to be in the storage that is configured when it runs
	for i := 0; i < r.Pick(6, 40); i++ {
		i := i
		r.Case(fmt.Sprintf("retargeted-linksystem/%d", i), map[string]any{"round": i}, func(c *mon.Case) {
			rr := c.Rand()
			first, second := store.New(), store.New()
			ls := first.LinkSystem(false)
			content1 := gen.Content(rr, "rand", 20+rr.Intn(400))
			content2 := gen.Content(rr, "rand", 20+rr.Intn(400))
			var l1, l2 ipld.Link
			var err1, err2, quickIncomplete error
			if !c.Guard("two builds through one link system value", func() {
				withWidth(3, func() { l1, _, err1 = builder.BuildUnixFSFile(bytes.NewReader(content1), "size-16", ls) })
				// the owner points the same value at other storage (SetWriteStorage does the same)
				ls.StorageWriteOpener = second.OpenWrite
				ls.StorageReadOpener = second.OpenRead
				switch i % 3 {
				case 0:
					withWidth(3, func() { l2, _, err2 = builder.BuildUnixFSFile(bytes.NewReader(content2), "size-16", ls) })
				case 1:
					names := gen.Names(rr, gen.FamASCII, 40)
					entries, _, _ := childEntries(second, names)
					l2, _, err2 = builder.BuildUnixFSShardedDirectory(8, multihash.MURMUR3X64_64, entries, ls)
				default:
					l2, _, err2 = builder.BuildUnixFSSymlink("elsewhere/"+fmt.Sprint(i), ls)
				}
				if i%2 == 1 && err2 == nil {
					// the same inside one quick-builder session: two trees holding a file with the same
					// bytes, the second built after the session's link system was pointed at other storage
					third := store.New()
					var d2 ipld.Link
					quickbuilder.Store(ls, func(b *quickbuilder.Builder) error {
						b.NewMapDirectory(map[string]quickbuilder.Node{"README": b.NewBytesFile(content1), "a": b.NewBytesFile(content2)})
						ls.StorageWriteOpener = third.OpenWrite
						ls.StorageReadOpener = third.OpenRead
						d2 = b.NewMapDirectory(map[string]quickbuilder.Node{"README": b.NewBytesFile(content1), "b": b.NewBytesFile([]byte("other"))}).Link()
						return nil
					})
					if d2 != nil {
						if _, werr := walkerFor(third).TreeSize(linkCid(d2)); werr != nil {
							quickIncomplete = werr
						}
					}
				}
			}) {
				return
			}
			c.Count("builds", 2)
			c.Count("retargeted_builds", 1)
			if quickIncomplete != nil {
				c.Violation("C16|returned-link-incomplete", "a quick-builder directory built after the session's link system was pointed at other storage is not complete in the storage configured then: %v", quickIncomplete)
			}
			if err1 != nil || err2 != nil || l1 == nil || l2 == nil {
				c.Violation("C16|build-error", "builds through a re-targeted link system failed: %v / %v", err1, err2)
				return
			}
			if _, werr := walkerFor(first).TreeSize(linkCid(l1)); werr != nil {
				c.Violation("C16|returned-link-incomplete", "first build: %v", werr)
			}
			if _, werr := walkerFor(second).TreeSize(linkCid(l2)); werr != nil {
				c.Violation("C16|returned-link-incomplete", "a build through a link system whose write storage was replaced after an earlier build returned %s, but the storage configured at that time does not hold its DAG: %v", l2, werr)
			}
			c.Sig(fmt.Sprintf("retargeted|%d", i%3), true)
		})
	}
	// a block the codec itself refuses to write (an entry with a negative size): nothing fails in
	// storage, yet the write of that block fails, and the build has to say so
	for i := 0; i < r.Pick(12, 80); i++ {
		i := i
		r.Case(fmt.Sprintf("unencodable-entry/%d", i), map[string]any{"round": i}, func(c *mon.Case) {
			rr := c.Rand()
			st := store.New()
			names := gen.Names(rr, gen.FamASCII, []int{1, 3, 20, 70}[i%4])
			_, model, sizes := childEntries(st, names)
			bad := names[rr.Intn(len(names))]
			var entries []dagpb.PBLink
			for _, n := range names {
				sz := int64(sizes[n])
				if n == bad {
					sz = -1 - int64(rr.Intn(5))
				}
				e, err := builder.BuildUnixFSDirectoryEntry(n, sz, cidlink.Link{Cid: model[n]})
				if err != nil {
					return // refusing the entry up front is fine as well
				}
				entries = append(entries, e)
			}
			installOrderHook(c, st, "build with an unencodable entry")
			kind := []string{"plain", "sharded8", "sharded256"}[i%3]
			var l ipld.Link
			var err error
			if !c.Guard("build with an unencodable entry", func() {
				switch kind {
				case "plain":
					l, _, err = builder.BuildUnixFSDirectory(entries, st.LinkSystem(false))
				case "sharded8":
					l, _, err = builder.BuildUnixFSShardedDirectory(8, multihash.MURMUR3X64_64, entries, st.LinkSystem(false))
				default:
					l, _, err = builder.BuildUnixFSShardedDirectory(256, multihash.MURMUR3X64_64, entries, st.LinkSystem(false))
				}
			}) {
				return
			}
			c.Count("builds", 1)
			c.Count("unencodable_entry_builds", 1)
			if err == nil {
				c.Violation("C16|write-failure-swallowed|encode", "%s directory of %d entries, one of which (%q) cannot be encoded: the build returned no error (link %v)", kind, len(names), bad, l)
			} else if l != nil {
				c.Violation("C16|link-with-error|encode", "%s directory with an unencodable entry: error %q together with link %v", kind, err, l)
			}
			if d := danglingIn(st); d != "" {
				c.Violation("C16|dangling-after-failure|encode", "%s directory with an unencodable entry: %s", kind, d)
			}
			c.Sig("unencodable-entry|"+kind+"|"+sizeClass(len(names)), true)
		})
	}
}

var _ = dagpb.Type
