package props

import (
	"context"
	"fmt"
	"io"
	"sort"
	"strings"
	"testing"

	"github.com/ipfs/go-cid"
	"github.com/ipfs/go-unixfsnode"
	"github.com/ipfs/go-unixfsnode/data/builder"
	"github.com/ipfs/go-unixfsnode/file"
	"github.com/ipfs/go-unixfsnode/hamt"
	"github.com/ipld/go-ipld-prime"
	"github.com/ipld/go-ipld-prime/datamodel"
	"github.com/ipld/go-ipld-prime/linking"
	"github.com/ipld/go-ipld-prime/linking/preload"
	"github.com/ipld/go-ipld-prime/traversal"
	"github.com/ipld/go-ipld-prime/traversal/selector"
	selbuilder "github.com/ipld/go-ipld-prime/traversal/selector/builder"
	"github.com/multiformats/go-multihash"

	"verifharness/mon"
	"verifharness/oracle"
	"verifharness/store"
)

type accessForm struct {
	Name string
	Run  func(ls *ipld.LinkSystem, raw ipld.Node) error
}

func walkWith(spec selbuilder.SelectorSpec, visit traversal.VisitFn) func(ls *ipld.LinkSystem, raw ipld.Node) error {
	return func(ls *ipld.LinkSystem, raw ipld.Node) error {
		sel, err := selector.CompileSelector(spec.Node())
		if err != nil {
			return fmt.Errorf("harness: selector does not compile: %w", err)
		}
		return progressFor(ls).WalkMatching(raw, sel, visit)
	}
}

var lsCfgSalt int

var entityForms = []accessForm{
	{"preload-reifier", func(ls *ipld.LinkSystem, raw ipld.Node) error {
		_, err := ls.KnownReifiers["unixfs-preload"](ipld.LinkContext{Ctx: bg}, raw, ls)
		return err
	}},
	{"preload-selector", walkWith(unixfsnode.MatchUnixFSPreloadSelector, func(traversal.Progress, datamodel.Node) error { return nil })},
	{"entity-selector", walkWith(unixfsnode.MatchUnixFSEntitySelector, unixfsnode.BytesConsumingMatcher)},
	// the same walk under a traversal budget that allows no further link to be followed by the walker:
	// the entity's own blocks are loaded by the entity, not by the walker
	{"entity-selector-linkbudget0", func(ls *ipld.LinkSystem, raw ipld.Node) error {
		sel, err := selector.CompileSelector(unixfsnode.MatchUnixFSEntitySelector.Node())
		if err != nil {
			return fmt.Errorf("harness: selector does not compile: %w", err)
		}
		prog := progressFor(ls)
		prog.Budget = &traversal.Budget{NodeBudget: 1 << 40, LinkBudget: 0}
		return prog.WalkMatching(raw, sel, unixfsnode.BytesConsumingMatcher)
	}},
	// the preloading file constructor handed a node that is already a lazily reified file
	{"preload-constructor-on-lazy-file", func(ls *ipld.LinkSystem, raw ipld.Node) error {
		lazy, err := unixfsnode.Reify(ipld.LinkContext{Ctx: bg}, raw, ls)
		if err != nil {
			return err
		}
		if lazy.Kind() != datamodel.Kind_Bytes {
			return errFormNA
		}
		_, err = file.NewUnixFSFileWithPreload(bg, lazy, ls)
		return err
	}},
}

// keptPreloaded holds, per root node handed to the forms, the file node that the preload reifier
// returned when every block was there (reset per entity)
var keptPreloaded = map[ipld.Node]ipld.Node{}

func init() {
	// a long-lived file node obtained from the preload reifier while the store was complete, walked
	// later with the entity selector and the consuming matcher: that walk is an entity access of its
	// own, it fetches every block again (file nodes keep none) and reports what cannot be loaded now
	entityForms = append(entityForms, accessForm{"entity-walk-from-kept-preloaded-file", func(ls *ipld.LinkSystem, raw ipld.Node) error {
		kept := keptPreloaded[raw]
		if kept == nil {
			n, err := ls.KnownReifiers["unixfs-preload"](ipld.LinkContext{Ctx: bg}, raw, ls)
			if err != nil {
				return err
			}
			if n.Kind() != datamodel.Kind_Bytes {
				return errFormNA
			}
			if _, isLB := n.(largeBytes); !isLB {
				return errFormNA
			}
			keptPreloaded[raw] = n
			kept = n
		}
		sel, err := selector.CompileSelector(unixfsnode.MatchUnixFSEntitySelector.Node())
		if err != nil {
			return fmt.Errorf("harness: selector does not compile: %w", err)
		}
		return progressFor(ls).WalkMatching(kept, sel, unixfsnode.BytesConsumingMatcher)
	}})
}

func init() {
	// the preloading view through a link system that has no storage to read from (one set up for
	// building only): nothing of the entity can be loaded, so for an entity of more than one block the
	// only right answer is an error
	entityForms = append(entityForms, accessForm{"preload-reifier-without-read-storage", func(ls *ipld.LinkSystem, raw ipld.Node) error {
		ls2 := *ls
		ls2.StorageReadOpener = nil
		_, err := ls.KnownReifiers["unixfs-preload"](ipld.LinkContext{Ctx: bg}, raw, &ls2)
		if err != nil {
			return errNoReadStorage
		}
		return nil
	}})
}

var errNoReadStorage = fmt.Errorf("refused: no storage to read from")

var errFormNA = fmt.Errorf("access form does not apply to this entity")

// entity describes what a preload/entity access must fetch.
type entity struct {
	Kind    string
	Name    string
	St      *store.Store
	Root    cid.Cid
	Blocks  []cid.Cid // distinct, excluding the root, DFS order
	Foreign []cid.Cid // blocks of the directory's entries (must not be fetched)
	Depth   int
	Model   map[string]cid.Cid // directory entries by name
}

func fileEntity(f *fileFixture) (*entity, error) {
	all, err := walkerFor(f.St).DFS(f.Root, nil)
	if err != nil {
		return nil, err
	}
	d, _, _ := shapeOf(walkerFor(f.St), f.Root)
	return &entity{Kind: "file", Name: f.Name, St: f.St, Root: f.Root, Blocks: all[1:], Depth: d}, nil
}

func dirEntity(c *mon.Case, d dirCase) *entity {
	names := namesFor(c, d)
	st := store.New()
	entries, model, _ := childEntries(st, names)
	var l ipld.Link
	var err error
	if d.Builder == "sharded" {
		l, _, err = builder.BuildUnixFSShardedDirectory(d.Fanout, multihash.MURMUR3X64_64, entries, st.LinkSystem(false))
	} else {
		l, _, err = builder.BuildUnixFSDirectory(entries, st.LinkSystem(false))
	}
	if err != nil {
		return nil
	}
	root := linkCid(l)
	w := walkerFor(st)
	e := &entity{Kind: d.Builder, Name: d.id(), St: st, Root: root, Model: model}
	if rn, _ := w.Node(root); rn != nil && rn.FS != nil && rn.FS.GetType() == 5 {
		_, shards, depth, err := w.HamtWalk(root)
		if err != nil {
			c.Harness("oracle hamt walk: %v", err)
			return nil
		}
		e.Blocks = shards[1:]
		e.Depth = depth + 1
		e.Kind = "hamt"
	} else {
		e.Kind = "plain"
		e.Depth = 1
	}
	for _, k := range sortedKeys(model) {
		e.Foreign = append(e.Foreign, model[k])
	}
	return e
}

func setOf(cs []cid.Cid) map[string]bool {
	m := map[string]bool{}
	for _, c := range cs {
		m[c.String()] = true
	}
	return m
}

// checkEntity is the C06 monitor for one entity and all access forms.
func checkEntity(c *mon.Case, e *entity, faults bool) {
	want := setOf(e.Blocks)
	// another LinkSystem of the same process, set up the same way and then reconfigured by its owner,
	// must have no influence on the link systems used below
	decoy := store.New().LinkSystem(true)
	decoy.KnownReifiers["unixfs-preload"] = unixfsnode.Reify
	decoy.KnownReifiers["unixfs"] = func(linking.LinkContext, datamodel.Node, *linking.LinkSystem) (datamodel.Node, error) {
		return nil, fmt.Errorf("decoy reifier")
	}
	keptPreloaded = map[ipld.Node]ipld.Node{}
	for fi, form := range entityForms {
		st := e.St.Clone()
		st.Logging = true
		// rotate over the link-system configurations a caller may have
		cfg := (fi + len(e.Blocks) + lsCfgSalt) % 4
		lsCfgSalt++
		ls := st.LinkSystemCfg(true, cfg == 1, cfg == 2)
		if cfg == 3 {
			// a link system derived by value from a configured one, with its own block source: the
			// original's source holds every block but is not the one this access may use
			ls = st.LinkSystemDerived(e.St.Clone())
		}
		c.Count(fmt.Sprintf("linksystem_cfg_%d", cfg), 1)
		// the root is handed over as the plain dag-pb node (loaded without any node reifier)
		raw, err := loadRaw(st.LinkSystem(false), e.Root)
		if err != nil {
			c.Harness("load root: %v", err)
			return
		}
		st.ResetLog()
		var rerr error
		if !c.Guard(form.Name, func() { rerr = form.Run(ls, raw) }) {
			continue
		}
		if rerr == errFormNA {
			continue
		}
		if form.Name == "preload-reifier-without-read-storage" {
			c.Count("preloads_without_read_storage", 1)
			if len(e.Blocks) > 0 && rerr == nil {
				c.Violation("C06|partial-success|"+form.Name, "the preload reifier, handed a link system without read storage, returned a node and no error for %s %s although none of its %d blocks below the root can be loaded", e.Kind, e.Name, len(e.Blocks))
			}
			continue
		}
		if rerr != nil {
			c.Violation("C06|access-error|"+form.Name, "%s on complete %s %s failed: %v", form.Name, e.Kind, e.Name, rerr)
			continue
		}
		got := uniq(st.ReadCids())
		delete(got, e.Root.String())
		c.Count("exact_sets_checked", 1)
		var missing, extra []string
		for k := range want {
			if !got[k] {
				missing = append(missing, k)
			}
		}
		for k := range got {
			if !want[k] {
				extra = append(extra, k)
			}
		}
		sort.Strings(missing)
		sort.Strings(extra)
		if len(missing) > 0 {
			c.Violation("C06|entity-block-not-fetched|"+form.Name, "%s on %s %s (depth %d, %d entity blocks) did not fetch %d of them, e.g. %s", form.Name, e.Kind, e.Name, e.Depth, len(want), len(missing), strings.Join(short(missing), " "))
		}
		if len(extra) > 0 {
			c.Violation("C06|fetched-beyond-entity|"+form.Name, "%s on %s %s fetched %d block(s) outside the entity, e.g. %s", form.Name, e.Kind, e.Name, len(extra), strings.Join(short(extra), " "))
		}
		if form.Name == "preload-reifier" && len(e.Blocks) > 0 {
			// the caller's context is already cancelled: with a block source that honours it nothing can
			// be loaded (an error is due); with one that serves regardless, success means everything fetched
			for _, ignore := range []bool{false, true} {
				cctx, cancel := context.WithCancel(bg)
				cancel()
				st.IgnoreCtx = ignore
				st.ResetLog()
				var cerr error
				if !c.Guard("preload under a cancelled context", func() {
					_, cerr = ls.KnownReifiers["unixfs-preload"](ipld.LinkContext{Ctx: cctx}, raw, ls)
				}) {
					continue
				}
				c.Count("cancelled_context_preloads", 1)
				got := uniq(st.ReadCids())
				miss := 0
				for k := range want {
					if !got[k] {
						miss++
					}
				}
				if cerr == nil && miss > 0 {
					c.Violation("C06|partial-success|cancelled-context", "preload of %s %s (%d entity blocks) under a cancelled context (block source honours the context: %v) returned no error although %d entity blocks were not loaded", e.Kind, e.Name, len(want), !ignore, miss)
				}
			}
			st.IgnoreCtx = false
		}
		if !faults {
			continue
		}
		for i, b := range e.Blocks {
			for ek := 0; ek < 5; ek++ {
				if (ek == 1 || ek == 3 || ek == 4) && i%3 != ek%3 && len(e.Blocks) > 12 {
					continue // second error kind on a third of the blocks of big entities
				}
				if ek == 2 && ((form.Name != "preload-reifier" && form.Name != "preload-constructor-on-lazy-file") || (i%2 != 0 && len(e.Blocks) > 12)) {
					// traversal.SkipMe is a signalling error that a *traversal* may act on; only the
					// direct reifier call is judged with it
					continue
				}
				st.ClearFaults()
				st.Absent = map[string]bool{b.KeyString(): true}
				if ek == 1 {
					st.AbsentErr = store.ErrInjected
				} else if ek == 2 {
					st.AbsentErr = traversal.SkipMe{}
				} else if ek == 3 {
					st.AbsentErr = fmt.Errorf("verif store: connection closed while reading block: %w", io.EOF)
				} else if ek == 4 {
					st.AbsentErr = io.EOF // a truncated block file
				}
				st.ResetLog()
				var ferr error
				if !c.Guard(form.Name+" with fault", func() { ferr = form.Run(ls, raw) }) {
					continue
				}
				c.Count("faults_injected", 1)
				if st.InjectedHits == 0 {
					c.Violation("C06|entity-block-not-fetched|"+form.Name, "%s never requested entity block %d/%d (%s) that was made unavailable", form.Name, i, len(e.Blocks), b)
					continue
				}
				if ferr == nil {
					c.Violation("C06|partial-success|"+form.Name, "%s on %s %s (depth %d) returned no error although entity block %d/%d (%s) could not be loaded (error kind %d)", form.Name, e.Kind, e.Name, e.Depth, i, len(e.Blocks), b, ek)
				} else {
					c.Count("errors_observed", 1)
				}
				pos := "middle"
				if i == 0 {
					pos = "first"
				} else if i == len(e.Blocks)-1 {
					pos = "last"
				}
				c.Sig(fmt.Sprintf("%s|%s|d%d|%s|fault-%s", e.Kind, strings.Split(e.Name, "-")[0], e.Depth, form.Name, pos), len(e.Blocks) >= 1)
			}
		}
		st.ClearFaults()
		c.Sig(fmt.Sprintf("%s|d%d|%s|nofault", e.Kind, e.Depth, form.Name), len(e.Blocks) >= 1)
	}
}

// checkPreloadedDirIsLoaded: what the preloading view returns for a sharded directory is a loaded node,
// not a partially loaded one - every shard block was fetched and the node goes on working when its
// storage is taken away right afterwards: length, a whole listing and lookups need no further block,
// also after the node was handed to the constructors once more.
func checkPreloadedDirIsLoaded(c *mon.Case, e *entity) {
	st := e.St.Clone()
	st.Logging = true
	ls := st.LinkSystem(true)
	raw, err := loadRaw(st.LinkSystem(false), e.Root)
	if err != nil {
		c.Harness("load root: %v", err)
		return
	}
	var node ipld.Node
	if !c.Guard("unixfs-preload", func() { node, err = ls.KnownReifiers["unixfs-preload"](ipld.LinkContext{Ctx: bg}, raw, ls) }) || err != nil || node == nil {
		return // judged by checkEntity
	}
	variants := []struct {
		name string
		get  func() (ipld.Node, error)
	}{
		{"the preloaded node", func() (ipld.Node, error) { return node, nil }},
		{"the preloaded node handed to AttemptHAMTShardFromNode with a request-scoped context and a copy of the link system", func() (ipld.Node, error) {
			ls2 := *ls
			return hamt.AttemptHAMTShardFromNode(context.WithValue(bg, c06Key{}, 1), node, &ls2)
		}},
		{"the preloaded node handed to the preload reifier again", func() (ipld.Node, error) {
			return ls.KnownReifiers["unixfs-preload"](ipld.LinkContext{Ctx: bg}, node, ls)
		}},
		{"a node preloaded under a request context that has ended since (the node was kept, the request is over)", func() (ipld.Node, error) {
			cctx, cancel := context.WithCancel(bg)
			n, err := ls.KnownReifiers["unixfs-preload"](ipld.LinkContext{Ctx: cctx}, raw, ls)
			cancel()
			return n, err
		}},
	}
	names := sortedKeys(e.Model)
	for vi, v := range variants {
		var n ipld.Node
		var gerr error
		if !c.Guard(v.name, func() { n, gerr = v.get() }) {
			continue
		}
		if gerr != nil || n == nil {
			c.Violation("C06|preloaded-dir-not-loaded|constructor", "%s of %s: %v", v.name, e.Name, gerr)
			continue
		}
		st.Closed = true
		st.ResetLog()
		c.Guard("use without storage", func() {
			if l := n.Length(); l != int64(len(e.Model)) {
				c.Violation("C06|preloaded-dir-not-loaded|length", "%s (%s, %d shard blocks, all fetched by the preload): with its storage taken away Length() = %d, the directory has %d entries", v.name, e.Name, len(e.Blocks), l, len(e.Model))
				return
			}
			seen := 0
			it := n.MapIterator()
			for !it.Done() && seen <= len(e.Model) {
				k, val, err := it.Next()
				if err != nil {
					c.Violation("C06|preloaded-dir-not-loaded|listing", "%s (%s): with its storage taken away the listing fails after %d of %d entries: %v", v.name, e.Name, seen, len(e.Model), err)
					return
				}
				ks, _ := k.AsString()
				if got, e2 := asCid(val); e2 != nil || !got.Equals(e.Model[ks]) {
					c.Violation("C06|preloaded-dir-not-loaded|listing", "%s (%s): entry %q -> %v, want %v", v.name, e.Name, ks, got, e.Model[ks])
					return
				}
				seen++
			}
			if seen != len(e.Model) {
				c.Violation("C06|preloaded-dir-not-loaded|listing", "%s (%s): with its storage taken away the listing yields %d of %d entries", v.name, e.Name, seen, len(e.Model))
				return
			}
			for i := 0; i < len(names); i += 1 + len(names)/40 {
				val, err := n.LookupByString(names[i])
				if err != nil {
					c.Violation("C06|preloaded-dir-not-loaded|lookup", "%s (%s): with its storage taken away LookupByString(%q) fails: %v", v.name, e.Name, names[i], err)
					return
				}
				if got, e2 := asCid(val); e2 != nil || !got.Equals(e.Model[names[i]]) {
					c.Violation("C06|preloaded-dir-not-loaded|lookup", "%s (%s): LookupByString(%q) = %v, want %v", v.name, e.Name, names[i], got, e.Model[names[i]])
					return
				}
			}
		})
		if reads := st.ReadCids(); len(reads) > 0 {
			c.Violation("C06|preloaded-dir-not-loaded|requests", "%s (%s): after the preload had fetched all %d shard blocks, using the node requested %d block(s) again, e.g. %s", v.name, e.Name, len(e.Blocks), len(reads), reads[0])
		}
		st.Closed = false
		c.Count("preloaded_dirs_used_without_storage", 1)
		c.Sig(fmt.Sprintf("preloaded-dir-loaded|v%d|d%d", vi, e.Depth), true)
	}
}

type c06Key struct{}

func TestC06(t *testing.T) {
	r := mon.Start(t, "C06")
	defer r.Close()
	for _, f := range fileFixtures(newRand(r.SeedFor("fixtures")), !r.Quick()) {
		f := f
		r.Case("file/"+f.Name, map[string]any{"fixture": f.Name, "len": len(f.Content), "root": f.Root.String()}, func(c *mon.Case) {
			e, err := fileEntity(f)
			if err != nil {
				c.Harness("oracle: %v", err)
				return
			}
			c.Count("entity_blocks", int64(len(e.Blocks)))
			checkEntity(c, e, true)
			c.Sample(map[string]any{"entity": "file " + f.Name, "blocks": len(e.Blocks), "forms": 3, "single_faults": len(e.Blocks)})
		})
	}
	var dcs []dirCase
	for _, d := range dirCases(r) {
		if d.N == 0 || d.N > 400 {
			continue
		}
		if d.Builder == "sharded" && (d.Family == "crafted" || d.Family == "crafted+filler" || d.N >= d.Fanout) {
			dcs = append(dcs, d)
		} else if d.Builder == "auto" && d.N <= 50 {
			dcs = append(dcs, d)
		}
	}
	if r.Quick() {
		var keep []dirCase
		for i, d := range dcs {
			if i%2 == 0 {
				keep = append(keep, d)
			}
		}
		dcs = keep
	}
	seen := map[string]bool{}
	for _, d := range dcs {
		d := d
		if seen[d.id()] {
			continue
		}
		seen[d.id()] = true
		r.Case("dir/"+d.id(), d, func(c *mon.Case) {
			e := dirEntity(c, d)
			if e == nil {
				return
			}
			c.Count("entity_blocks", int64(len(e.Blocks)))
			c.Max("max_hamt_depth", int64(e.Depth))
			checkEntity(c, e, true)
			if e.Kind == "hamt" && len(e.Blocks) > 0 {
				checkPreloadedDirIsLoaded(c, e)
			}
		})
	}
	// entities at the end of a path inside a tree
	for i := 0; i < r.Pick(24, 300); i++ {
		i := i
		r.Case(fmt.Sprintf("tree/%d", i), map[string]any{"tree": i}, func(c *mon.Case) {
			root := genTree(c.Rand(), 3, true)
			base := store.New()
			if err := buildTree(base, root, nil); err != nil {
				c.Harness("tree build: %v", err)
				return
			}
			w := walkerFor(base)
			for _, n := range root.all() {
				var ent []cid.Cid
				if n.Kind == "hamt" {
					_, shards, _, err := w.HamtWalk(n.Cid)
					if err != nil {
						c.Harness("oracle: %v", err)
						return
					}
					ent = shards
				} else if n.Kind == "file" {
					all, err := w.DFS(n.Cid, nil)
					if err != nil {
						c.Harness("oracle: %v", err)
						return
					}
					ent = all
				} else {
					ent = []cid.Cid{n.Cid}
				}
				// path blocks
				allowed := map[string]bool{root.Cid.String(): true}
				cur := root
				for _, seg := range n.Path {
					if cur.Kind == "hamt" {
						p, _, _ := w.HamtLookupPath(cur.Cid, seg)
						for _, s := range p {
							allowed[s.String()] = true
						}
					}
					cur = cur.child(seg)
					allowed[cur.Cid.String()] = true
				}
				for _, b := range ent {
					allowed[b.String()] = true
				}
				for ti, target := range []selbuilder.SelectorSpec{unixfsnode.MatchUnixFSPreloadSelector, unixfsnode.MatchUnixFSEntitySelector, unixfsnode.MatchUnixFSEntitySelector, unixfsnode.MatchUnixFSEntitySelector, unixfsnode.MatchUnixFSEntitySelector} {
					st := base.Clone()
					st.Logging = true
					ls := st.LinkSystem(true)
					raw, _ := loadRaw(ls, root.Cid)
					st.ResetLog()
					var werr error
					c.Guard("path+entity traversal", func() {
						sel, e := selector.CompileSelector(unixfsnode.UnixFSPathSelectorBuilder(strings.Join(n.Path, "/"), target, false))
						if e != nil {
							werr = e
							return
						}
						prog := progressFor(ls)
						if ti == 2 {
							// a walk resumed exactly at the entity (as after an interruption)
							var segs []datamodel.PathSegment
							for _, sg := range n.Path {
								segs = append(segs, datamodel.PathSegmentOfString(sg))
							}
							prog.Cfg.StartAtPath = datamodel.NewPath(segs)
							c.Count("resumed_walks", 1)
						}
						if ti == 4 {
							// a walk configured with a preloader (the two-phase walk that lets a caller fetch
							// links ahead); this one looks at the links and fetches nothing
							prog.Cfg.Preloader = func(preload.PreloadContext, preload.Link) {}
							c.Count("walks_with_preloader", 1)
						}
						if ti == 3 {
							// a walker told to follow every link at most once (each link on a path is met once)
							prog.Cfg.LinkVisitOnlyOnce = true
							c.Count("visit_once_walks", 1)
						}
						werr = prog.WalkMatching(raw, sel, unixfsnode.BytesConsumingMatcher)
					})
					if werr != nil {
						c.Violation("C06|access-error|path", "path %q + target %d: %v", strings.Join(n.Path, "/"), ti, werr)
						continue
					}
					got := uniq(st.ReadCids())
					c.Count("exact_sets_checked", 1)
					for _, b := range ent {
						if !got[b.String()] && !b.Equals(root.Cid) {
							c.Violation("C06|entity-block-not-fetched|path", "path %q (%s) target %d: entity block %s not fetched", strings.Join(n.Path, "/"), n.Kind, ti, b)
							break
						}
					}
					for k := range got {
						if !allowed[k] {
							c.Violation("C06|fetched-beyond-entity|path", "path %q (%s) target %d: fetched %s which is neither on the path nor in the entity", strings.Join(n.Path, "/"), n.Kind, ti, k)
							break
						}
					}
				}
				c.Sig(fmt.Sprintf("path|%s|depth%d", n.Kind, len(n.Path)), len(ent) >= 2)
			}
		})
	}
}

var _ = oracle.PadLen
