package props

import (
	"bytes"
	"fmt"
	"io"
	"os"
	"path/filepath"
	"runtime"
	"sync"
	"testing"
	"testing/iotest"

	chunk "github.com/ipfs/boxo/chunker"
	"github.com/ipfs/go-cid"
	"github.com/ipfs/go-unixfsnode/data/builder"
	quickbuilder "github.com/ipfs/go-unixfsnode/data/builder/quick"
	dagpb "github.com/ipld/go-codec-dagpb"
	"github.com/ipld/go-ipld-prime"
	"github.com/ipld/go-ipld-prime/codec"
	"github.com/ipld/go-ipld-prime/datamodel"
	cidlink "github.com/ipld/go-ipld-prime/linking/cid"
	"github.com/multiformats/go-multihash"

	"verifharness/gen"
	"verifharness/mon"
	"verifharness/oracle"
	"verifharness/store"
)

// c11RawOverhead is the number of framing bytes the caller's encoder adds to
// every raw block (0 with the stock codec); cases run one at a time.
var c11RawOverhead int64

// checkSizes is the C11 monitor: an independent walk of the DAG under root.
func checkSizes(c *mon.Case, st *store.Store, root cid.Cid, returned uint64, what string) (links int, shared bool) {
	w := walkerFor(st)
	ts, err := w.TreeSize(root)
	if err != nil {
		c.Violation("C11|dag-incomplete", "%s: cannot walk the returned DAG: %v", what, err)
		return
	}
	if ts != returned {
		c.Violation("C11|returned-size", "%s: builder returned size %d, the tree under %s sums to %d", what, returned, root, ts)
	}
	contentMemo := map[string]int64{}
	var contentLen func(cc cid.Cid) int64
	contentLen = func(cc cid.Cid) int64 {
		if v, ok := contentMemo[cc.KeyString()]; ok {
			return v
		}
		n, err := w.Node(cc)
		if err != nil {
			return -1
		}
		var total int64
		switch {
		case !n.IsPB:
			total = int64(len(n.Raw)) - c11RawOverhead
		case len(n.Links) == 0:
			if n.FS != nil {
				total = int64(len(n.FS.Data))
			}
		default:
			for _, l := range n.Links {
				total += contentLen(l.Cid)
			}
		}
		contentMemo[cc.KeyString()] = total
		return total
	}
	seen := map[string]int{}
	var rec func(cc cid.Cid, depth int)
	rec = func(cc cid.Cid, depth int) {
		seen[cc.KeyString()]++
		if seen[cc.KeyString()] > 1 {
			shared = true
			return
		}
		n, err := w.Node(cc)
		if err != nil || !n.IsPB {
			return
		}
		isFile := n.FS != nil && n.FS.GetType() == 2 && len(n.Links) > 0
		for i, l := range n.Links {
			links++
			want, err := w.TreeSize(l.Cid)
			if err != nil {
				c.Violation("C11|dag-incomplete", "%s: link %d of %s dangles: %v", what, i, cc, err)
				continue
			}
			if !l.HasSize {
				c.Violation("C11|link-tsize|absent", "%s: link %d (%q) of %s (depth %d) carries no Tsize", what, i, l.Name, cc, depth)
			} else if l.Tsize != want {
				kind := "leaf"
				if tn, _ := w.Node(l.Cid); tn != nil && len(tn.Links) > 0 {
					kind = "interior"
				}
				c.Violation("C11|link-tsize|"+kind, "%s: link %d (%q) of %s (depth %d) has Tsize %d, its target's tree sums to %d", what, i, l.Name, cc, depth, l.Tsize, want)
			}
			if isFile {
				if i < len(n.FS.Blocksizes) {
					if cl := contentLen(l.Cid); int64(n.FS.Blocksizes[i]) != cl {
						c.Violation("C11|blocksize", "%s: node %s (depth %d) declares blocksizes[%d] = %d, child holds %d content bytes", what, cc, depth, i, n.FS.Blocksizes[i], cl)
					}
				}
			}
			rec(l.Cid, depth+1)
		}
		if isFile {
			if len(n.FS.Blocksizes) != len(n.Links) {
				c.Violation("C11|blocksize-count", "%s: node %s has %d links and %d blocksizes", what, cc, len(n.Links), len(n.FS.Blocksizes))
			}
			if n.FS.Filesize == nil || int64(n.FS.GetFilesize()) != contentLen(cc) {
				c.Violation("C11|filesize", "%s: node %s (depth %d) declares filesize %v, %d content bytes are stored beneath it", what, cc, depth, n.FS.Filesize, contentLen(cc))
			}
		}
	}
	rec(root, 0)
	c.Count("links_checked", int64(links))
	c.Count("dags_checked", 1)
	if shared {
		c.Count("dags_with_shared_blocks", 1)
		if st.TotalBytes() < int(ts) {
			c.Count("dags_where_store_smaller_than_tree", 1)
		}
	}
	return
}

func TestC11(t *testing.T) {
	r := mon.Start(t, "C11")
	defer r.Close()
	seen := map[string]bool{}
	for i, fc := range fileCases(r) {
		fc := fc
		if seen[fc.id("")] {
			continue
		}
		seen[fc.id("")] = true
		if r.Quick() && fc.Note == "" && i%2 == 1 {
			continue
		}
		r.Case(fc.id("file"), fc, func(c *mon.Case) {
			content := gen.Content(c.Rand(), fc.Kind, fc.Len)
			st := store.New()
			var l ipld.Link
			var sz uint64
			var err error
			ls := st.LinkSystem(false)
			how := ""
			if fc.Len%3 == 1 {
				// encoders that emit a block in several Write calls
				ls = store.ChunkedEncoders(ls, 1+fc.Len%7*13)
				how = " (encoder writing in pieces)"
				c.Count("builds_with_piecewise_encoders", 1)
			}
			withWidth(fc.Width, func() {
				l, sz, err = builder.BuildUnixFSFile(bytes.NewReader(content), fc.Chunker, ls)
			})
			if err != nil {
				c.Violation("C11|build-error", "%v", err)
				return
			}
			root := linkCid(l)
			links, shared := checkSizes(c, st, root, sz, fmt.Sprintf("file w%d %s %d bytes%s", fc.Width, fc.Chunker, fc.Len, how))
			depth, spine, _ := shapeOf(walkerFor(st), root)
			c.Max("max_depth", int64(depth))
			c.Sig(fmt.Sprintf("file|w%d|d%d|spine%v|shared=%v", fc.Width, depth, spine, shared), links >= 1)
		})
	}
	// a source that ends with io.ErrUnexpectedEOF instead of io.EOF (a compressed stream without its
	// trailer, a body cut short): the size chunkers take that for the end of the input, and when it
	// comes exactly on a chunk boundary they hand out one last chunk of no bytes. Whatever the builder
	// stores for it is a child like any other: one block size per link
	for _, k := range []int{1, 4, 16} {
		for _, chunks := range []int{0, 1, 2, 3, 7, 9, 10} {
			for _, extra := range []int{0, 1} {
				k, chunks, extra := k, chunks, extra
				if extra >= k {
					continue
				}
				r.Case(fmt.Sprintf("file-unexpected-eof/k%d/chunks%d/extra%d", k, chunks, extra), map[string]any{"chunker": fmt.Sprintf("size-%d", k), "len": k*chunks + extra, "source_ends_with": "io.ErrUnexpectedEOF"}, func(c *mon.Case) {
					content := gen.Content(c.Rand(), "rand", k*chunks+extra)
					for _, w := range []int{2, 3, 174} {
						st := store.New()
						var l ipld.Link
						var sz uint64
						var err error
						withWidth(w, func() {
							l, sz, err = builder.BuildUnixFSFile(io.MultiReader(bytes.NewReader(content), iotest.ErrReader(io.ErrUnexpectedEOF)), fmt.Sprintf("size-%d", k), st.LinkSystem(false))
						})
						if err != nil {
							c.Count("builds_refused", 1) // refusing such a source is the builder's right
							continue
						}
						c.Count("builds_from_sources_ending_in_unexpected_eof", 1)
						links, _ := checkSizes(c, st, linkCid(l), sz, fmt.Sprintf("file w%d size-%d %d bytes from a source ending in io.ErrUnexpectedEOF", w, k, len(content)))
						if spans, _, err := walkerFor(st).FileSpans(linkCid(l)); err == nil {
							for _, sp := range spans {
								if sp.Leaf && sp.Start == sp.End && len(content) > 0 {
									c.Count("empty_leaves_stored", 1)
								}
							}
						}
						c.Sig(fmt.Sprintf("file-unexpected-eof|w%d|aligned=%v", w, extra == 0), links >= 1)
					}
				})
			}
		}
	}
	// content-defined chunks: two neighbouring interior nodes with the same number of children and the
	// same total, but other chunk lengths (searched for among random contents)
	for _, w := range []int{2, 3} {
		w := w
		r.Case(fmt.Sprintf("file-rabin-equal-totals/w%d", w), map[string]any{"chunker": "rabin-16-32-64", "width": w}, func(c *mon.Case) {
			rr := c.Rand()
			found := 0
			for try := 0; try < 3000 && found < 3; try++ {
				content := gen.Content(rr, "rand", 500+rr.Intn(400))
				spl, err := chunk.FromString(bytes.NewReader(content), "rabin-16-32-64")
				if err != nil {
					c.Harness("chunker: %v", err)
					return
				}
				var lens []int
				for {
					b, err := spl.NextBytes()
					if err != nil {
						break
					}
					lens = append(lens, len(b))
				}
				hit := false
				for k := 0; k+2*w <= len(lens); k += w {
					s1, s2, same := 0, 0, true
					for j := 0; j < w; j++ {
						s1 += lens[k+j]
						s2 += lens[k+w+j]
						if lens[k+j] != lens[k+w+j] {
							same = false
						}
					}
					if s1 == s2 && !same {
						hit = true
					}
				}
				if !hit {
					continue
				}
				found++
				st := store.New()
				var l ipld.Link
				var sz uint64
				withWidth(w, func() { l, sz, err = builder.BuildUnixFSFile(bytes.NewReader(content), "rabin-16-32-64", st.LinkSystem(false)) })
				if err != nil {
					c.Violation("C11|build-error", "%v", err)
					return
				}
				checkSizes(c, st, linkCid(l), sz, fmt.Sprintf("file w%d rabin-16-32-64 %d bytes whose neighbouring interior nodes have equal totals and different chunk lengths", w, len(content)))
				c.Count("files_with_equal_total_neighbours", 1)
			}
			c.Sig(fmt.Sprintf("file-rabin-equal-totals|w%d", w), found > 0)
		})
	}
	// the exported package variable builder.BlockSizeLimit lowered by the caller (nothing reads it today;
	// whatever comes to read it, sizes stay true)
	for _, lim := range []int{100, 2048} {
		lim := lim
		r.Case(fmt.Sprintf("lowered-block-size-limit/%d", lim), map[string]any{"BlockSizeLimit": lim}, func(c *mon.Case) {
			rr := c.Rand()
			old := builder.BlockSizeLimit
			builder.BlockSizeLimit = lim
			defer func() { builder.BlockSizeLimit = old }()
			for _, ch := range []string{"size-250", "size-64", "size-3000"} {
				for _, n := range []int{250, 600, 1000, 7000} {
					st := store.New()
					content := gen.Content(rr, "rand", n)
					var l ipld.Link
					var sz uint64
					var err error
					withWidth(3, func() { l, sz, err = builder.BuildUnixFSFile(bytes.NewReader(content), ch, st.LinkSystem(false)) })
					if err != nil {
						c.Count("builds_refused", 1)
						continue
					}
					checkSizes(c, st, linkCid(l), sz, fmt.Sprintf("file w3 %s %d bytes with builder.BlockSizeLimit = %d", ch, n, lim))
					c.Count("builds_with_lowered_block_size_limit", 1)
				}
			}
			for _, n := range []int{10, 60, 300} {
				st := store.New()
				names := gen.Names(rr, gen.FamASCII, n)
				entries, _, _ := childEntries(st, names)
				l, sz, err := builder.BuildUnixFSDirectory(entries, st.LinkSystem(false))
				if err != nil {
					c.Count("builds_refused", 1)
					continue
				}
				checkSizes(c, st, linkCid(l), sz, fmt.Sprintf("directory of %d entries with builder.BlockSizeLimit = %d", n, lim))
				c.Count("builds_with_lowered_block_size_limit", 1)
			}
			c.Sig(fmt.Sprintf("lowered-block-size-limit|%d", lim), true)
		})
	}
	// a link system whose encoder table knows dag-pb but not raw (a private multicodec registry): the
	// builder cannot store leaves through it. It may refuse; what it may not do is come back with sizes
	// that leave the leaves out
	for _, n := range []int{0, 1, 10, 40, 700} {
		n := n
		r.Case(fmt.Sprintf("file-no-raw-encoder/n%d", n), map[string]any{"len": n, "chunker": "size-16", "encoders": "dag-pb only"}, func(c *mon.Case) {
			content := gen.Content(c.Rand(), "rand", n)
			st := store.New()
			ls := st.LinkSystem(false)
			inner := ls.EncoderChooser
			ls.EncoderChooser = func(lp datamodel.LinkPrototype) (codec.Encoder, error) {
				if clp, ok := lp.(cidlink.LinkPrototype); ok && clp.Prefix.Codec == cid.Raw {
					return nil, fmt.Errorf("no encoder registered for multicodec code 0x55 (raw)")
				}
				return inner(lp)
			}
			var l ipld.Link
			var sz uint64
			var err error
			if !c.Guard("BuildUnixFSFile", func() {
				withWidth(3, func() { l, sz, err = builder.BuildUnixFSFile(bytes.NewReader(content), "size-16", ls) })
			}) {
				return
			}
			c.Count("builds_without_raw_encoder", 1)
			if err != nil {
				c.Count("builds_refused", 1)
				if l != nil {
					c.Violation("C11|link-with-error", "BuildUnixFSFile through a link system without a raw encoder returned link %v together with error %v", l, err)
				}
			} else {
				checkSizes(c, st, linkCid(l), sz, fmt.Sprintf("file of %d bytes built through a link system without a raw encoder", n))
			}
			c.Sig("file-no-raw-encoder", true)
		})
	}
	if !r.Quick() {
		// a file of 2^32+1 bytes (streamed zeros): byte counts must not wrap at 32 bits
		r.Case("file/huge-zero-stream", map[string]any{"len": int64(1)<<32 + 1, "width": 2, "chunker": "size-1048576"}, func(c *mon.Case) {
			st := store.New()
			var l ipld.Link
			var sz uint64
			var err error
			withWidth(2, func() {
				l, sz, err = builder.BuildUnixFSFile(&zeroReader{left: 1<<32 + 1}, "size-1048576", st.LinkSystem(false))
			})
			if err != nil {
				c.Violation("C11|build-error", "%v", err)
				return
			}
			links, shared := checkSizes(c, st, linkCid(l), sz, "file of 2^32+1 zero bytes")
			c.Count("dags_ge_2e32_bytes", 1)
			c.Sig(fmt.Sprintf("file|huge|shared=%v", shared), links >= 1)
		})
	}
	// directories over real children (true Tsize by construction)
	for i := 0; i < r.Pick(100, 2000); i++ {
		i := i
		r.Case(fmt.Sprintf("tree/%d", i), map[string]any{"tree": i}, func(c *mon.Case) {
			root := genTree(c.Rand(), 3, true)
			st := store.New()
			if err := buildTree(st, root, nil); err != nil {
				c.Harness("tree build: %v", err)
				return
			}
			for _, n := range root.all() {
				if n.Writer != "" {
					continue // sizes of reference-written entities are not this library's claim
				}
				if n.isDir() {
					links, shared := checkSizes(c, st, n.Cid, n.Size, fmt.Sprintf("%s directory %q (%d entries)", n.Kind, filepath.Join(n.Path...), len(n.Children)))
					c.Sig(fmt.Sprintf("%s|f%d|n%s|shared=%v", n.Kind, n.Fanout, sizeClass(len(n.Children)), shared), links >= 1)
				}
			}
		})
	}
	// entry lists in which a name occurs more than once (plain directory builder): whatever the builder
	// writes, the size it returns must be that of what it wrote
	for i := 0; i < r.Pick(8, 60); i++ {
		i := i
		r.Case(fmt.Sprintf("dupnames/%d", i), map[string]any{"round": i}, func(c *mon.Case) {
			rr := c.Rand()
			st := store.New()
			var entries []dagpb.PBLink
			for k := 0; k < 3+rr.Intn(12); k++ {
				data := gen.Content(rr, "rand", 1+rr.Intn(200))
				cc := st.PutBlock(1, cid.Raw, data)
				name := fmt.Sprintf("n%d", rr.Intn(5))
				e, _ := builder.BuildUnixFSDirectoryEntry(name, int64(len(data)), cidlink.Link{Cid: cc})
				entries = append(entries, e)
			}
			l, sz, err := builder.BuildUnixFSDirectory(entries, st.LinkSystem(false))
			if err != nil {
				return // refusing duplicates would be fine too
			}
			checkSizes(c, st, linkCid(l), sz, "plain directory with repeated entry names")
			c.Sig("dupnames", true)
		})
	}
	// a build that fails half-way (k-th write-open, commit or Write call), then more building in the same
	// process: the sizes of what is built afterwards must be those of what is stored then
	for i := 0; i < r.Pick(24, 240); i++ {
		i := i
		r.Case(fmt.Sprintf("afterfault/%d", i), map[string]any{"round": i}, func(c *mon.Case) {
			rr := c.Rand()
			content := gen.Content(rr, "rand", 40+rr.Intn(300))
			chunker := fmt.Sprintf("size-%d", 8+rr.Intn(40))
			bad := store.New()
			kind := []string{"write", "write", "wopen", "commit"}[i%4]
			k := 1 + i/4%12
			switch kind {
			case "write":
				bad.FailWriteAt = k
			case "wopen":
				bad.FailWOpenAt = k
			default:
				bad.FailCommitAt = k
			}
			bls := bad.LinkSystem(false)
			if i%3 == 0 {
				bls = store.ChunkedEncoders(bls, 7+i%5)
			}
			var ferr error
			c.Guard("failing build", func() {
				withWidth(3, func() { _, _, ferr = builder.BuildUnixFSFile(bytes.NewReader(content), chunker, bls) })
			})
			if bad.InjectedHits > 0 {
				c.Count("failed_builds_before", 1)
				_ = ferr
			}
			// now the builds that are judged
			st := store.New()
			content2 := gen.Content(rr, "rand", 30+rr.Intn(300))
			var l ipld.Link
			var sz uint64
			var err error
			withWidth(3, func() { l, sz, err = builder.BuildUnixFSFile(bytes.NewReader(content2), chunker, st.LinkSystem(false)) })
			if err != nil {
				c.Violation("C11|build-error", "%v", err)
				return
			}
			links, _ := checkSizes(c, st, linkCid(l), sz, fmt.Sprintf("file built after a build that failed at %s #%d", kind, k))
			names := gen.Names(rr, gen.FamASCII, 5+rr.Intn(20))
			entries, _, _ := childEntries(st, names)
			dl, dsz, err := builder.BuildUnixFSDirectory(entries, st.LinkSystem(false))
			if err == nil {
				checkSizes(c, st, linkCid(dl), dsz, fmt.Sprintf("directory built after a build that failed at %s #%d", kind, k))
			}
			c.Sig(fmt.Sprintf("afterfault|%s|hit=%v", kind, bad.InjectedHits > 0), links >= 1 && bad.InjectedHits > 0)
		})
	}
	// a caller whose encoder for raw blocks frames them (length and checksum header): the sizes are
	// those of the encoded blocks, the content sizes those of the chunks
	for i := 0; i < r.Pick(10, 80); i++ {
		i := i
		r.Case(fmt.Sprintf("framed/%d", i), map[string]any{"round": i}, func(c *mon.Case) {
			rr := c.Rand()
			hdr := 1 + rr.Intn(12)
			content := gen.Content(rr, "rand", []int{1, 17, 40, 333, 1000}[i%5]+rr.Intn(50))
			chunker := fmt.Sprintf("size-%d", 8+rr.Intn(60))
			st := store.New()
			var l ipld.Link
			var sz uint64
			var err error
			w := 2 + i%3
			withWidth(w, func() {
				l, sz, err = builder.BuildUnixFSFile(bytes.NewReader(content), chunker, store.StyledEncoders(st.LinkSystem(false), hdr, i%4))
			})
			if err != nil {
				c.Violation("C11|build-error", "%v", err)
				return
			}
			c11RawOverhead = int64(hdr)
			links, _ := checkSizes(c, st, linkCid(l), sz, fmt.Sprintf("file w%d %s %d bytes, raw blocks framed with a %d-byte header", w, chunker, len(content), hdr))
			c11RawOverhead = 0
			c.Count("builds_with_framing_encoders", 1)
			// directories and a symlink through encoders of the same style (no framing: nothing raw is written)
			names := gen.Names(rr, gen.FamASCII, 5+rr.Intn(40))
			entries, _, _ := childEntries(st, names)
			if dl, dsz, err := builder.BuildUnixFSShardedDirectory(16, multihash.MURMUR3X64_64, entries, store.StyledEncoders(st.LinkSystem(false), 0, i%4)); err == nil {
				checkSizes(c, st, linkCid(dl), dsz, fmt.Sprintf("sharded directory through an encoder of style %d", i%4))
			}
			if dl, dsz, err := builder.BuildUnixFSDirectory(entries, store.StyledEncoders(st.LinkSystem(false), 0, i%4)); err == nil {
				checkSizes(c, st, linkCid(dl), dsz, fmt.Sprintf("directory through an encoder of style %d", i%4))
			}
			if sl, ssz, err := builder.BuildUnixFSSymlink("some/target", store.StyledEncoders(st.LinkSystem(false), 0, i%4)); err == nil {
				checkSizes(c, st, linkCid(sl), ssz, fmt.Sprintf("symlink through an encoder of style %d", i%4))
			}
			c.Sig(fmt.Sprintf("framed|w%d|links%s", w, sizeClass(links)), links >= 1)
		})
	}
	// the quick builder over nodes it did not make itself (any implementation of its Node interface),
	// mixed with its own: link sizes are what each node reports, the directory's size the true total
	for i := 0; i < r.Pick(8, 60); i++ {
		i := i
		r.Case(fmt.Sprintf("quick-foreign-nodes/%d", i), map[string]any{"round": i}, func(c *mon.Case) {
			rr := c.Rand()
			st := store.New()
			names := gen.Names(rr, gen.FamASCII, 2+rr.Intn(30))
			_, model, sizes := childEntries(st, names)
			var root ipld.Link
			var sz int64
			var szErr error
			if !c.Guard("quick builder", func() {
				quickbuilder.Store(st.LinkSystem(false), func(b *quickbuilder.Builder) error {
					m := map[string]quickbuilder.Node{}
					for k, n := range names {
						if k%3 == 2 {
							m[n] = b.NewBytesFile(gen.Content(rr, "rand", 1+rr.Intn(400)))
						} else {
							m[n] = qnode{model[n], int64(sizes[n]), false}
						}
					}
					if i%2 == 0 {
						// a file of more than one chunk made by the session itself: the size its node reports
						// is the cumulative size of its DAG, not its length
						big := b.NewBytesFile(gen.Content(rr, "rand", 262144+1+rr.Intn(3*262144)))
						m["big-file-of-several-chunks"] = big
						if bs, e := big.Size(); e == nil {
							if ts, werr := walkerFor(st).TreeSize(linkCid(big.Link())); werr == nil && uint64(bs) != ts {
								c.Violation("C11|quick-node-size", "quick NewBytesFile of several chunks reports Size() = %d, the DAG under its link %s holds %d bytes", bs, big.Link(), ts)
							}
						}
						c.Count("quick_multichunk_files", 1)
					}
					d := b.NewMapDirectory(m)
					root = d.Link()
					sz, szErr = d.Size()
					return nil
				})
			}) || root == nil || szErr != nil {
				return
			}
			c.Count("quick_builds_with_foreign_nodes", 1)
			links, _ := checkSizes(c, st, linkCid(root), uint64(sz), fmt.Sprintf("quick-builder directory of %d entries, two thirds of them foreign Node values", len(names)))
			c.Sig("quick-foreign|"+sizeClass(len(names)), links >= 1)
		})
	}
	// a link system without write storage: a builder that does not refuse it has no excuse for
	// reporting other sizes than with storage
	for i := 0; i < r.Pick(6, 30); i++ {
		i := i
		r.Case(fmt.Sprintf("no-write-storage/%d", i), map[string]any{"round": i}, func(c *mon.Case) {
			rr := c.Rand()
			content := gen.Content(rr, "rand", 1+rr.Intn(2000))
			chunker := fmt.Sprintf("size-%d", 16+rr.Intn(200))
			st := store.New()
			var l, l2 ipld.Link
			var sz, sz2 uint64
			var err, err2 error
			withWidth(3, func() { l, sz, err = builder.BuildUnixFSFile(bytes.NewReader(content), chunker, st.LinkSystem(false)) })
			nols := store.New().LinkSystem(false)
			nols.StorageWriteOpener = nil
			c.Guard("build without write storage", func() {
				withWidth(3, func() { l2, sz2, err2 = builder.BuildUnixFSFile(bytes.NewReader(content), chunker, nols) })
			})
			c.Count("builds_without_write_storage", 1)
			if err != nil {
				c.Violation("C11|build-error", "%v", err)
				return
			}
			if err2 == nil && (l2 == nil || l2.String() != l.String() || sz2 != sz) {
				c.Violation("C11|returned-size|no-write-storage", "a file of %d bytes built through a link system without write storage succeeds with (%v, %d); with storage it is (%v, %d)", len(content), l2, sz2, l, sz)
			}
			sl, ssz, serr := builder.BuildUnixFSSymlink("a/target", st.LinkSystem(false))
			var sl2 ipld.Link
			var ssz2 uint64
			var serr2 error
			c.Guard("symlink without write storage", func() { sl2, ssz2, serr2 = builder.BuildUnixFSSymlink("a/target", nols) })
			if serr == nil && serr2 == nil && (sl2 == nil || sl2.String() != sl.String() || ssz2 != ssz) {
				c.Violation("C11|returned-size|no-write-storage", "a symlink built through a link system without write storage succeeds with (%v, %d); with storage it is (%v, %d)", sl2, ssz2, sl, ssz)
			}
			c.Sig(fmt.Sprintf("no-write-storage|refused=%v", err2 != nil), true)
		})
	}
	// entries whose links are identity CIDs (the target is inlined in the link) or use other hash
	// functions: their sizes count like any other entry's
	for i := 0; i < r.Pick(8, 60); i++ {
		i := i
		r.Case(fmt.Sprintf("inline-entries/%d", i), map[string]any{"round": i}, func(c *mon.Case) {
			rr := c.Rand()
			st := store.New()
			var entries []dagpb.PBLink
			for k := 0; k < 3+rr.Intn(40); k++ {
				data := gen.Content(rr, "rand", 1+rr.Intn(30))
				code := []uint64{multihash.IDENTITY, multihash.IDENTITY, multihash.SHA2_256, multihash.SHA2_512}[rr.Intn(4)]
				mh, err := multihash.Sum(data, code, -1)
				if err != nil {
					c.Harness("multihash: %v", err)
					return
				}
				cc := st.PutAs(cid.NewCidV1(cid.Raw, mh), data)
				e, _ := builder.BuildUnixFSDirectoryEntry(fmt.Sprintf("e%03d", k), int64(len(data)), cidlink.Link{Cid: cc})
				entries = append(entries, e)
			}
			var l ipld.Link
			var sz uint64
			var err error
			kind := "plain"
			if i%2 == 1 {
				kind = "sharded-16"
				l, sz, err = builder.BuildUnixFSShardedDirectory(16, multihash.MURMUR3X64_64, entries, st.LinkSystem(false))
			} else {
				l, sz, err = builder.BuildUnixFSDirectory(entries, st.LinkSystem(false))
			}
			if err != nil {
				c.Violation("C11|build-error", "%v", err)
				return
			}
			links, _ := checkSizes(c, st, linkCid(l), sz, kind+" directory over entries with identity and other multihashes")
			c.Count("dirs_with_inline_entries", 1)
			c.Sig("inline-entries|"+kind, links >= 1)
		})
	}
	// big sharded directories and symlinks
	for _, f := range allFanouts {
		f := f
		r.Case(fmt.Sprintf("shard/f%d", f), map[string]any{"fanout": f, "entries": 3*f + 7}, func(c *mon.Case) {
			st := store.New()
			names := gen.Names(c.Rand(), gen.FamMixed, 3*f+7)
			entries, _, _ := childEntries(st, names)
			l, sz, err := builder.BuildUnixFSShardedDirectory(f, multihash.MURMUR3X64_64, entries, store.ChunkedEncoders(st.LinkSystem(false), 50))
			if err != nil {
				c.Violation("C11|build-error", "%v", err)
				return
			}
			links, _ := checkSizes(c, st, linkCid(l), sz, fmt.Sprintf("sharded directory fanout %d", f))
			c.Sig(fmt.Sprintf("shard|f%d", f), links >= 1)
			sl, ssz, err := builder.BuildUnixFSSymlink("target/"+names[0], st.LinkSystem(false))
			if err == nil {
				checkSizes(c, st, linkCid(sl), ssz, "symlink")
			}
		})
	}
	// several builds running at once over one shared LinkSystem: the size bookkeeping of one
	// build must not be disturbed by another (the store yields inside every commit to widen the window)
	for i := 0; i < r.Pick(6, 40); i++ {
		i := i
		r.Case(fmt.Sprintf("concurrent/%d", i), map[string]any{"goroutines": 4, "round": i}, func(c *mon.Case) {
			st := store.New()
			st.OnCommit = func(*store.Store, cid.Cid, []byte) { runtime.Gosched() }
			st.OnRead = func(cid.Cid) {}
			ls := st.LinkSystem(false)
			type res struct {
				what string
				root cid.Cid
				size uint64
				err  error
			}
			out := make([]res, 4)
			var wg sync.WaitGroup
			seeds := []int64{c.Rand().Int63(), c.Rand().Int63(), c.Rand().Int63(), c.Rand().Int63()}
			for g := 0; g < 4; g++ {
				wg.Add(1)
				go func(g int) {
					defer wg.Done()
					rr := newRand(uint64(seeds[g]))
					switch g % 2 {
					case 0:
						n := 50 + rr.Intn(400)
						content := gen.Content(rr, "rand", n)
						l, sz, err := builder.BuildUnixFSFile(bytes.NewReader(content), fmt.Sprintf("size-%d", 7+g), ls)
						out[g] = res{fmt.Sprintf("file of %d bytes built concurrently", n), linkCid(l), sz, err}
					default:
						var entries []dagpb.PBLink
						for k := 0; k < 20+rr.Intn(30); k++ {
							data := []byte(fmt.Sprintf("g%d-child-%d-%d", g, k, rr.Int63()))
							cl, csz, err := builder.BuildUnixFSFile(bytes.NewReader(data), "size-9", ls)
							if err != nil {
								out[g] = res{"child file", cid.Undef, 0, err}
								return
							}
							e, _ := builder.BuildUnixFSDirectoryEntry(fmt.Sprintf("e%d", k), int64(csz), cl)
							entries = append(entries, e)
						}
						l, sz, err := builder.BuildUnixFSShardedDirectory(8, multihash.MURMUR3X64_64, entries, ls)
						out[g] = res{"sharded directory built concurrently", linkCid(l), sz, err}
					}
				}(g)
			}
			wg.Wait()
			st.OnCommit = nil
			for _, o := range out {
				if o.err != nil {
					c.Violation("C11|build-error", "%s: %v", o.what, o.err)
					continue
				}
				checkSizes(c, st, o.root, o.size, o.what)
			}
			c.Count("concurrent_builds", 4)
			c.Sig(fmt.Sprintf("concurrent|%d", i%4), true)
		})
	}
	// recursive filesystem imports (incl. a file larger than one default chunk)
	for i := 0; i < r.Pick(6, 40); i++ {
		i := i
		r.Case(fmt.Sprintf("fs/%d", i), map[string]any{"fs_tree": i}, func(c *mon.Case) {
			dir, err := os.MkdirTemp("", "verif-c11-")
			if err != nil {
				c.Harness("mktemp: %v", err)
				return
			}
			defer os.RemoveAll(dir)
			rr := c.Rand()
			must := func(err error) {
				if err != nil {
					panic(err)
				}
			}
			must(os.MkdirAll(filepath.Join(dir, "t", "sub", "deeper"), 0o755))
			must(os.WriteFile(filepath.Join(dir, "t", "small.txt"), gen.Content(rr, "rand", 10+rr.Intn(100)), 0o644))
			must(os.WriteFile(filepath.Join(dir, "t", "empty"), nil, 0o644))
			must(os.WriteFile(filepath.Join(dir, "t", "sub", "big.bin"), gen.Content(rr, "rand", 262144*2+rr.Intn(100000)), 0o644))
			must(os.WriteFile(filepath.Join(dir, "t", "sub", "zeros.bin"), gen.Content(rr, "zero", 262144*3), 0o644))
			must(os.WriteFile(filepath.Join(dir, "t", "sub", "deeper", "exact.bin"), gen.Content(rr, "rand", 262144), 0o644))
			must(os.Symlink("../small.txt", filepath.Join(dir, "t", "sub", "lnk")))
			// further names for the same inodes (hard links), in the same and in another directory:
			// each name is an entry like any other, with the cumulative size of what it links to
			if os.Link(filepath.Join(dir, "t", "sub", "big.bin"), filepath.Join(dir, "t", "sub", "big-again.bin")) == nil &&
				os.Link(filepath.Join(dir, "t", "sub", "big.bin"), filepath.Join(dir, "t", "big-elsewhere.bin")) == nil &&
				os.Link(filepath.Join(dir, "t", "small.txt"), filepath.Join(dir, "t", "sub", "deeper", "small-again.txt")) == nil {
				c.Count("hard_linked_names", 3)
			}
			for k := 0; k < rr.Intn(20); k++ {
				must(os.WriteFile(filepath.Join(dir, "t", "sub", "deeper", fmt.Sprintf("f%d", k)), gen.Content(rr, "rand", rr.Intn(3000)), 0o644))
			}
			st := store.New()
			l, sz, err := builder.BuildUnixFSRecursive(filepath.Join(dir, "t"), st.LinkSystem(false))
			if err != nil {
				c.Violation("C11|build-error", "BuildUnixFSRecursive: %v", err)
				return
			}
			links, shared := checkSizes(c, st, linkCid(l), sz, "recursive import")
			c.Count("recursive_imports", 1)
			c.Sig(fmt.Sprintf("fs|shared=%v|%d", shared, i%3), links >= 1)
		})
	}
}

var _ = dagpb.Type
var _ = cidlink.Link{}
var _ = oracle.PadLen
