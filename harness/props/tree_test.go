package props

import (
	"bytes"
	"fmt"
	"math/rand"
	"sort"
	"strings"

	pb "github.com/ipfs/boxo/ipld/unixfs/pb"
	"github.com/ipfs/go-cid"
	"github.com/ipfs/go-unixfsnode/data/builder"
	dagpb "github.com/ipld/go-codec-dagpb"
	"github.com/ipld/go-ipld-prime"
	cidlink "github.com/ipld/go-ipld-prime/linking/cid"
	"github.com/multiformats/go-multihash"

	"verifharness/gen"
	"verifharness/oracle"
	"verifharness/store"
)

// tnode is the Go model of one entity of a generated UnixFS tree.
type tnode struct {
	Kind     string // file | dir | hamt
	Name     string
	Content  []byte
	Children []*tnode
	Fanout   int
	Width    int
	Chunk    int
	Writer   string // "" = this library's builder; else a reference importer mode / "ref" for a boxo HAMT
	Cid      cid.Cid
	Size     uint64
	Path     []string
	Aliases  []string // names that are not entries but share a whole hash with one (hamt only)
	Stamp    *int64   // if set, the root block is rewritten with this modification time (UnixFS 1.5)
}

func (n *tnode) isDir() bool { return n.Kind != "file" }

func (n *tnode) child(name string) *tnode {
	for _, c := range n.Children {
		if c.Name == name {
			return c
		}
	}
	return nil
}

func (n *tnode) entries() map[string]cid.Cid {
	m := map[string]cid.Cid{}
	for _, c := range n.Children {
		m[c.Name] = c.Cid
	}
	return m
}

// all lists every node with its path, depth-first.
func (n *tnode) all() []*tnode {
	out := []*tnode{n}
	for _, c := range n.Children {
		out = append(out, c.all()...)
	}
	return out
}

var treeNamePool = []string{" lead", "lead", "trail ", "trail", "readme\t", "readme", "todo\u3000", "todo", "\u00a0nbsp", " ", ".", "..", "a b", "%41", "ä", "日本", "😀", "0", "07", "2024", "FF", "0A", "x.txt", "x", "X", "long-name-with-many-characters-0123456789", "~", "a%2Fb", "tab\there", "é", "-", "_", "00", "1"}

func genTreeNames(r *rand.Rand, n int) []string {
	seen := map[string]bool{}
	var out []string
	for len(out) < n {
		var s string
		if r.Intn(3) == 0 {
			s = treeNamePool[r.Intn(len(treeNamePool))]
		} else {
			s = gen.Names(r, []int{gen.FamASCII, gen.FamMixed, gen.FamHexPrefix, gen.FamNumeric}[r.Intn(4)], 1)[0]
		}
		s = strings.ReplaceAll(s, "/", "_")
		if s == "" || seen[s] {
			continue
		}
		seen[s] = true
		out = append(out, s)
	}
	return out
}

// genTree generates a random tree model of the given maximum depth.
func genTree(r *rand.Rand, depth int, root bool) *tnode {
	kind := r.Intn(10)
	if root || (depth > 0 && kind < 4) {
		n := &tnode{Kind: "dir"}
		cnt := 1 + r.Intn(6)
		if r.Intn(3) == 0 {
			n.Kind = "hamt"
			n.Fanout = []int{8, 8, 16, 32}[r.Intn(4)]
			cnt = 8 + r.Intn(30)
			if r.Intn(3) == 0 {
				n.Writer = "ref"
			}
		}
		if r.Intn(12) == 0 {
			cnt = 0
		}
		if n.Kind == "dir" && r.Intn(4) == 0 {
			n.Writer = "hand-unsorted" // a plain directory block whose links are not in name order
		}
		wide := false
		if n.Kind == "dir" && cnt > 0 && r.Intn(9) == 0 {
			// a wide plain directory (wide nodes tempt implementations into indexes); its entries are files
			cnt = 65 + r.Intn(80)
			wide = true
		}
		names := genTreeNames(r, cnt)
		if r.Intn(3) == 0 {
			// names longer than any filesystem allows
			for _, l := range []int{256, 300, 1000} {
				b := bytes.Repeat([]byte{'L'}, l)
				copy(b, fmt.Sprintf("%04d-%08x-", l, r.Uint32()))
				names = append(names, string(b))
			}
		}
		if n.Kind == "hamt" {
			// a few entries whose hash equals that of one of their own proper suffixes:
			// a path ending in that suffix names no entry but walks the same bucket chain
			for k := 0; k < 3; k++ {
				suf := fmt.Sprintf("-alias%d.txt", k)
				for tries := 0; tries < 50; tries++ {
					m := gen.CraftAround(nil, []byte(suf), oracle.Hash64(suf), r.Uint64())
					if !strings.Contains(m, "/") {
						names = append(names, m)
						n.Aliases = append(n.Aliases, suf)
						break
					}
				}
			}
		}
		for _, name := range names {
			cd := depth - 1
			if wide {
				cd = 0
			}
			c := genTree(r, cd, false)
			c.Name = name
			n.Children = append(n.Children, c)
		}
		return n
	}
	n := &tnode{Kind: "file", Width: 2 + r.Intn(2), Chunk: 3 + r.Intn(2)}
	switch r.Intn(6) {
	case 0, 1:
		n.Writer = refModeNames[r.Intn(len(refModeNames))]
	case 2:
		n.Writer = []string{"hand-pbRaw", "hand-pbFile", "hand-pbRaw-v0", "hand-pbFile-emptydata"}[r.Intn(4)]
	}
	switch r.Intn(5) {
	case 0:
		n.Content = nil
	case 1:
		n.Content = gen.Content(r, "rand", 1+r.Intn(n.Chunk))
	case 2:
		// repeated chunks (identical blocks occurring several times in one file)
		n.Content = gen.Content(r, []string{"zero", "period3", "period8"}[r.Intn(3)], 8+r.Intn(60))
	default:
		n.Content = gen.Content(r, "rand", 1+r.Intn(40))
	}
	return n
}

// buildTree stores the tree bottom-up with the library's builders and fills in
// Cid/Size/Path.
func buildTree(st *store.Store, n *tnode, path []string) error {
	if err := buildTreeNode(st, n, path); err != nil {
		return err
	}
	if n.Stamp != nil {
		restamp(st, n)
	}
	return nil
}

// restamp rewrites the root block of n (if it is a dag-pb block with decodable UnixFS data) so that it
// carries a modification time, as a UnixFS 1.5 writer would have stored it.
func restamp(st *store.Store, n *tnode) {
	blk, ok := st.Get(n.Cid)
	if !ok {
		return
	}
	nd, err := oracle.Decode(n.Cid, blk)
	if err != nil || !nd.IsPB || nd.FS == nil {
		return
	}
	fs := *nd.FS
	secs := *n.Stamp
	fs.Mtime = &pb.IPFSTimestamp{Seconds: &secs}
	if secs%2 != 0 {
		ns := uint32(500000000)
		fs.Mtime.Nanos = &ns
	}
	var links []pbLinkSpec
	for _, l := range nd.Links {
		ls := pbLinkSpec{Cid: l.Cid}
		if l.HasName {
			nm := l.Name
			ls.Name = &nm
		}
		if l.HasSize {
			sz := l.Tsize
			ls.Tsize = &sz
		}
		links = append(links, ls)
	}
	nb := encodePB(mustMarshal(&fs), true, links)
	n.Cid = st.PutBlock(int(n.Cid.Version()), cid.DagProtobuf, nb)
	n.Size = n.Size - uint64(len(blk)) + uint64(len(nb))
}

func buildTreeNode(st *store.Store, n *tnode, path []string) error {
	n.Path = append([]string(nil), path...)
	ls := st.LinkSystem(false)
	if n.Kind == "file" && strings.HasPrefix(n.Writer, "hand-") {
		o := handFileOpts{Width: n.Width, PBLeaves: true, LeafType: pb.Data_File, V0: strings.HasSuffix(n.Writer, "-v0")}
		if strings.Contains(n.Writer, "pbRaw") {
			o.LeafType = pb.Data_Raw
		}
		// interior nodes with a present, zero-length Data field: the same file
		o.EmptyData = strings.Contains(n.Writer, "emptydata")
		chunks := splitChunks(n.Content, n.Chunk)
		if len(chunks) == 0 {
			chunks = [][]byte{{}}
		}
		n.Cid, n.Size = handFile(st, chunks, o)
		return nil
	}
	if n.Kind == "file" && n.Writer != "" {
		c, sz, err := oracle.RefImport(st, bytes.NewReader(n.Content), fmt.Sprintf("size-%d", n.Chunk), n.Width, refModes[n.Writer])
		if err != nil {
			return err
		}
		n.Cid, n.Size = c, sz
		return nil
	}
	if n.Kind == "file" {
		var l ipld.Link
		var sz uint64
		var err error
		withWidth(n.Width, func() {
			l, sz, err = builder.BuildUnixFSFile(bytes.NewReader(n.Content), fmt.Sprintf("size-%d", n.Chunk), ls)
		})
		if err != nil {
			return err
		}
		n.Cid, n.Size = linkCid(l), sz
		return nil
	}
	var entries []dagpb.PBLink
	for _, c := range n.Children {
		if err := buildTree(st, c, append(path, c.Name)); err != nil {
			return err
		}
		e, err := builder.BuildUnixFSDirectoryEntry(c.Name, int64(c.Size), cidlink.Link{Cid: c.Cid})
		if err != nil {
			return err
		}
		entries = append(entries, e)
	}
	if n.Kind == "hamt" && n.Writer == "ref" && len(n.Children) > 0 {
		rs, err := oracle.NewRefShard(st, n.Fanout)
		if err != nil {
			return err
		}
		for _, c := range n.Children {
			if err := rs.Set(c.Name, c.Cid, c.Size); err != nil {
				return err
			}
		}
		c, sz, err := rs.Node()
		if err != nil {
			return err
		}
		n.Cid, n.Size = c, sz
		return nil
	}
	if n.Kind == "dir" && n.Writer == "hand-unsorted" {
		// written by a non-canonicalising encoder: go-codec-dagpb decodes it keeping the stored order
		dt := pb.Data_Directory
		var links []pbLinkSpec
		var total uint64
		for _, c := range n.Children {
			links = append(links, pbLinkSpec{Name: strp(c.Name), Tsize: u64p(c.Size), Cid: c.Cid})
			total += c.Size
		}
		sort.Slice(links, func(i, j int) bool { return *links[i].Name > *links[j].Name }) // reverse order
		if len(links) > 2 {
			links[0], links[len(links)/2] = links[len(links)/2], links[0]
		}
		blk := encodePB(mustMarshal(&pb.Data{Type: &dt}), true, links)
		n.Cid = st.PutBlock(1, cid.DagProtobuf, blk)
		n.Size = total + uint64(len(blk))
		return nil
	}
	var l ipld.Link
	var sz uint64
	var err error
	if n.Kind == "hamt" {
		l, sz, err = builder.BuildUnixFSShardedDirectory(n.Fanout, multihash.MURMUR3X64_64, entries, ls)
	} else {
		l, sz, err = builder.BuildUnixFSDirectory(entries, ls)
	}
	if err != nil {
		return err
	}
	n.Cid, n.Size = linkCid(l), sz
	return nil
}

// resolve walks the model along path segments.
func (n *tnode) resolve(segs []string) *tnode {
	cur := n
	for _, s := range segs {
		if cur == nil || !cur.isDir() {
			return nil
		}
		cur = cur.child(s)
	}
	return cur
}

func sortedKeys(m map[string]cid.Cid) []string {
	out := make([]string, 0, len(m))
	for k := range m {
		out = append(out, k)
	}
	sort.Strings(out)
	return out
}

var refModes = map[string]oracle.ImportMode{}
var refModeNames []string

func init() {
	for _, lay := range []string{"balanced", "trickle"} {
		for _, raw := range []bool{true, false} {
			for _, v1 := range []bool{true, false} {
				m := oracle.ImportMode{Layout: lay, RawLeaves: raw, CidV1: v1}
				refModes[m.String()] = m
				refModeNames = append(refModeNames, m.String())
			}
		}
	}
}
