package props

import (
	"fmt"
	"hash"
	"math/bits"
	"runtime"
	"sort"
	"testing"

	"github.com/ipfs/go-cid"
	"github.com/ipfs/go-unixfsnode/data/builder"
	"github.com/multiformats/go-multihash"
	"github.com/spaolacci/murmur3"

	"verifharness/gen"
	"verifharness/mon"
	"verifharness/oracle"
	"verifharness/store"
)

// legacyMurmur is the 32-bit murmur3 that old go-multihash versions had under code 0x22.
type legacyMurmur struct{ hash.Hash32 }

func (legacyMurmur) BlockSize() int { return 1 }
func (legacyMurmur) Size() int      { return 4 }

// stdMurmur64 is what go-multihash registers under MURMUR3X64_64 (restored after the case).
type stdMurmur64 struct{ hash.Hash64 }

func (stdMurmur64) BlockSize() int             { return 1 }
func (stdMurmur64) Size() int                  { return 8 }
func (x stdMurmur64) Sum(digest []byte) []byte { return x.Hash64.Sum(digest) }

func TestC08(t *testing.T) {
	r := mon.Start(t, "C08")
	defer r.Close()
	// (1) side-by-side builds
	seen := map[string]bool{}
	for _, d := range dirCases(r) {
		d := d
		if d.Builder != "sharded" || d.N == 0 || seen[d.id()] {
			continue
		}
		seen[d.id()] = true
		r.Case("cmp/"+d.id(), d, func(c *mon.Case) {
			names := namesFor(c, d)
			st := store.New()
			entries, model, sizes := childEntries(st, names)
			mon.Shuffle(c.Rand(), entries)
			if len(entries) >= 2 && (len(names)+d.Fanout)%3 == 0 {
				// another directory built with another hash function just before, after the garbage
				// collector has run (whatever the builder pools or caches is then handed on)
				runtime.GC()
				builder.BuildUnixFSShardedDirectory(d.Fanout, multihash.SHA2_256, entries[:2], store.New().LinkSystem(false))
				c.Count("builds_after_other_hasher", 1)
			}
			bls := st.LinkSystem(false)
			if (len(names)+d.Fanout)%4 == 1 {
				// a caller's encoder that hands each block over in pieces
				bls = store.ChunkedEncoders(bls, 1+len(names)%9)
				c.Count("builds_with_piecewise_encoders", 1)
			}
			l, size, err := builder.BuildUnixFSShardedDirectory(d.Fanout, multihash.MURMUR3X64_64, entries, bls)
			ref := store.New()
			rs, rerr := oracle.NewRefShard(ref, d.Fanout)
			if rerr != nil {
				c.Harness("reference NewShard(%d): %v", d.Fanout, rerr)
				return
			}
			order := append([]string(nil), names...)
			mon.Shuffle(c.Rand(), order)
			for _, n := range order {
				if rerr = rs.Set(n, model[n], sizes[n]); rerr != nil {
					break
				}
			}
			var rroot cid.Cid
			var rsize uint64
			if rerr == nil {
				rroot, rsize, rerr = rs.Node()
			}
			c.Count("cid_comparisons", 1)
			lg := bits.TrailingZeros(uint(d.Fanout))
			if !representable(names, lg) {
				c.Count("unrepresentable_sets", 1)
				if (err == nil) != (rerr == nil) {
					c.Violation("C08|refusal-disagrees", "entry set not representable in a fanout-%d HAMT: builder err=%v, reference err=%v", d.Fanout, err, rerr)
				}
				c.Sig(fmt.Sprintf("f%d|refused|%s", d.Fanout, d.Family), true)
				return
			}
			if rerr != nil {
				c.Harness("reference refused a representable set: %v", rerr)
				return
			}
			if err != nil {
				c.Violation("C08|build-error", "builder failed (%v) on a set the reference HAMT holds (fanout %d, %d names, %d shared hash bits)", err, d.Fanout, len(names), d.Shared)
				return
			}
			root := linkCid(l)
			_, _, depth, _ := walkerFor(ref).HamtWalk(rroot)
			c.Max("max_hamt_depth", int64(depth+1))
			if !root.Equals(rroot) {
				wa, wb := walkerFor(st), walkerFor(ref)
				c.Violation("C08|root-differs", "fanout %d, %d names (%s, depth %d): builder %s, reference %s; %s", d.Fanout, len(names), d.Family, depth+1, root, rroot, firstDagDifference(wa, wb, root, rroot, "root", 0))
			} else if size != rsize {
				c.Violation("C08|size-differs", "fanout %d, %d names: same root, builder size %d, reference %d", d.Fanout, len(names), size, rsize)
			}
			c.Sig(fmt.Sprintf("cmp|f%d|depth%d|%s|%s", d.Fanout, depth+1, d.Family, sizeClass(len(names))), len(names) >= 2)
			c.Sample(map[string]any{"builder_root": root.String(), "reference_root": rroot.String(), "size": size, "entries": len(names), "depth": depth + 1})
		})
	}
	// (1b) a process in which the multihash registry holds another hasher under the murmur3-x64-64 code
	// (the registry is process-global and "last Register wins"): the directory layout is defined by
	// murmur3-x64-64 itself, as the declared hash type says, so nothing changes
	for _, f := range []int{16, 256} {
		f := f
		r.Case(fmt.Sprintf("registry-override/f%d", f), map[string]any{"fanout": f, "entries": 300}, func(c *mon.Case) {
			multihash.Register(multihash.MURMUR3X64_64, func() hash.Hash { return legacyMurmur{murmur3.New32()} })
			defer multihash.Register(multihash.MURMUR3X64_64, func() hash.Hash { return stdMurmur64{murmur3.New64()} })
			names := namesFor(c, dirCase{Family: "ascii", N: 300})
			st, ref := store.New(), store.New()
			entries, model, sizes := childEntries(st, names)
			for _, cc := range model {
				if b, ok := st.Get(cc); ok {
					ref.PutBlock(1, cid.Raw, b)
				}
			}
			l, size, err := builder.BuildUnixFSShardedDirectory(f, multihash.MURMUR3X64_64, entries, st.LinkSystem(false))
			rs, rerr := oracle.NewRefShard(ref, f)
			if rerr == nil {
				for _, n := range names {
					if rerr = rs.Set(n, model[n], sizes[n]); rerr != nil {
						break
					}
				}
			}
			if rerr != nil {
				c.Harness("reference: %v", rerr)
				return
			}
			rroot, rsize, rerr := rs.Node()
			c.Count("cid_comparisons", 1)
			c.Count("builds_under_overridden_registry", 1)
			if err != nil || rerr != nil || !linkCid(l).Equals(rroot) || size != rsize {
				c.Violation("C08|root-differs", "fanout %d, 300 names, with another hasher registered under the murmur3-x64-64 code: builder (%v, %d, %v), reference (%v, %d, %v)", f, l, size, err, rroot, rsize, rerr)
			}
			c.Sig(fmt.Sprintf("registry-override|f%d", f), true)
		})
	}
	// (2) insert/remove histories on the reference HAMT, snapshots read back
	nh := r.Pick(256, 6000)
	for i := 0; i < nh; i++ {
		f := allFanouts[i%len(allFanouts)]
		steps := []int{10, 40, 150, 600, 2000}[(i/len(allFanouts))%5]
		if r.Quick() && steps > 600 {
			steps = 300
		}
		desc := map[string]any{"fanout": f, "steps": steps, "i": i}
		r.Case(fmt.Sprintf("hist/f%d/steps%d/%d", f, steps, i), desc, func(c *mon.Case) {
			rr := c.Rand()
			st := store.New()
			rs, err := oracle.NewRefShard(st, f)
			if err != nil {
				c.Harness("reference NewShard: %v", err)
				return
			}
			pool := gen.Names(rr, []int{gen.FamASCII, gen.FamMixed, gen.FamHexPrefix, gen.FamNumeric}[rr.Intn(4)], steps/2+8)
			if rr.Intn(3) == 0 {
				// add names that collide deeply with each other
				pool = append(pool, gen.SharedPrefixNames(rr, 6, (2+rr.Intn(3))*bits.TrailingZeros(uint(f)))...)
			}
			_, cids, sizes := childEntries(st, pool)
			model := map[string]cid.Cid{}
			removed := map[string]bool{}
			removals := 0
			phaseRemove := false
			snap := func(tag string) {
				root, _, err := rs.Node()
				if err != nil {
					c.Harness("reference Node(): %v", err)
					return
				}
				enum, err := rs.Enum()
				if err != nil {
					c.Harness("reference EnumLinks: %v", err)
					return
				}
				if len(enum) != len(model) {
					c.Harness("reference enumerates %d entries, model has %d", len(enum), len(model))
					return
				}
				c.Count("snapshots_read", 1)
				if len(model) == 0 {
					// boxo serialises an empty shard; reading it must give an empty map
				}
				node, err := loadReified(st.LinkSystem(false), root)
				if err != nil {
					c.Violation("C08|reify-reference-hamt", "Reify of a reference-written HAMT (%s, %d entries, after %d removals) failed: %v", tag, len(model), removals, err)
					return
				}
				var gone []string
				for n := range removed {
					if _, ok := model[n]; !ok {
						gone = append(gone, n)
					}
				}
				sort.Strings(gone)
				if len(gone) > 50 {
					gone = gone[:50]
				}
				_, _, depth, _ := walkerFor(st).HamtWalk(root)
				c.Max("max_hamt_depth", int64(depth+1))
				checkDirAsMap(c, "C08", node, model, gone, []int{oracle.PadLen(uint64(f))}, 400)
			}
			for s := 0; s < steps; s++ {
				if s%37 == 0 {
					phaseRemove = rr.Intn(3) == 0
				}
				doRemove := len(model) > 0 && (rr.Intn(10) < 3 || (phaseRemove && rr.Intn(10) < 8))
				if doRemove {
					// pick a present name
					var k string
					j := rr.Intn(len(model))
					keys := make([]string, 0, len(model))
					for n := range model {
						keys = append(keys, n)
					}
					sort.Strings(keys)
					k = keys[j]
					if err := rs.Remove(k); err != nil {
						c.Harness("reference Remove(%q): %v", k, err)
						return
					}
					delete(model, k)
					removed[k] = true
					removals++
					c.Count("removals", 1)
				} else {
					k := pool[rr.Intn(len(pool))]
					if err := rs.Set(k, cids[k], sizes[k]); err != nil {
						c.Harness("reference SetLink(%q): %v", k, err)
						return
					}
					model[k] = cids[k]
					c.Count("inserts", 1)
				}
				if rr.Intn(steps/6+1) == 0 || s == steps-1 {
					snap(fmt.Sprintf("step %d", s))
				}
			}
			// remove down to one entry, snapshot, then to zero
			keys := make([]string, 0, len(model))
			for n := range model {
				keys = append(keys, n)
			}
			sort.Strings(keys)
			for i, k := range keys {
				if i == len(keys)-1 {
					break
				}
				if err := rs.Remove(k); err != nil {
					c.Harness("reference Remove(%q): %v", k, err)
					return
				}
				delete(model, k)
				removed[k] = true
				removals++
			}
			snap("drained to one")
			hl := "short"
			if steps >= 150 {
				hl = "medium"
			}
			if steps >= 600 {
				hl = "long"
			}
			c.Sig(fmt.Sprintf("hist|f%d|%s|removals%s", f, hl, sizeClass(removals)), true)
		})
	}
}
