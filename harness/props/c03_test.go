package props

import (
	"math/rand"
	"bytes"
	"fmt"
	"sort"
	"strings"
	"testing"

	"github.com/ipfs/go-cid"
	"github.com/ipfs/go-unixfsnode"
	"github.com/ipfs/go-unixfsnode/data/builder"
	dagpb "github.com/ipld/go-codec-dagpb"
	"github.com/ipld/go-ipld-prime"
	"github.com/ipld/go-ipld-prime/datamodel"
	cidlink "github.com/ipld/go-ipld-prime/linking/cid"
	"github.com/ipld/go-ipld-prime/traversal"
	"github.com/ipld/go-ipld-prime/traversal/selector"
	selbuilder "github.com/ipld/go-ipld-prime/traversal/selector/builder"

	"verifharness/gen"
	"verifharness/mon"
	"verifharness/store"
)

type matchRec struct {
	Path  string
	Kind  string
	Bytes []byte
	Ents  map[string]cid.Cid
	Err   string
}

func recordMatch(p traversal.Progress, n datamodel.Node) matchRec {
	m := matchRec{Path: p.Path.String(), Kind: n.Kind().String()}
	switch n.Kind() {
	case datamodel.Kind_Bytes:
		b, err := n.AsBytes()
		if err != nil {
			m.Err = err.Error()
		}
		m.Bytes = b
	case datamodel.Kind_Map:
		m.Ents = map[string]cid.Cid{}
		it := n.MapIterator()
		if it == nil {
			m.Err = "nil MapIterator"
			break
		}
		for i := 0; !it.Done() && i < 100000; i++ {
			k, v, err := it.Next()
			if err != nil {
				m.Err = err.Error()
				break
			}
			ks, _ := k.AsString()
			c, err := asCid(v)
			if err != nil {
				// raw dag-pb map (un-reified): values are not links
				m.Err = "non-link value under key " + ks
				break
			}
			m.Ents[ks] = c
		}
	}
	return m
}

// matchesTarget compares one match with the model entity.
func matchesTarget(m matchRec, n *tnode) string {
	if m.Err != "" {
		return "match could not be read: " + m.Err
	}
	if n.Kind == "file" {
		if m.Kind != "bytes" {
			return "file matched as kind " + m.Kind
		}
		if !bytes.Equal(m.Bytes, n.Content) {
			return fmt.Sprintf("file bytes differ: got %d bytes (sha %s), want %d (sha %s)", len(m.Bytes), sum(m.Bytes), len(n.Content), sum(n.Content))
		}
		return ""
	}
	if m.Kind != "map" {
		return "directory matched as kind " + m.Kind
	}
	want := n.entries()
	if len(want) != len(m.Ents) {
		return fmt.Sprintf("directory match has %d entries, model has %d", len(m.Ents), len(want))
	}
	for k, v := range want {
		if !m.Ents[k].Equals(v) {
			return fmt.Sprintf("directory match: entry %q -> %v, model %v", k, m.Ents[k], v)
		}
	}
	return ""
}

var c03Targets = []struct {
	Name string
	Spec selbuilder.SelectorSpec
}{
	{"match", unixfsnode.MatchUnixFSSelector},
	{"preload", unixfsnode.MatchUnixFSPreloadSelector},
	{"entity", unixfsnode.MatchUnixFSEntitySelector},
}

func spell(segs []string, how int) string {
	p := strings.Join(segs, "/")
	switch how {
	case 1:
		return "/" + p
	case 2:
		return p + "/"
	case 3:
		return "//" + strings.Join(segs, "//") + "//"
	}
	return p
}

func TestC03(t *testing.T) {
	r := mon.Start(t, "C03")
	defer r.Close()
	for i := 0; i < r.Pick(64, 1200); i++ {
		i := i
		r.Case(fmt.Sprintf("tree/%d", i), map[string]any{"tree": i, "depth": 3}, func(c *mon.Case) {
			root := genTree(c.Rand(), 3+i%2*boolInt(!r.Quick()), true)
			st := store.New()
			if i%4 == 2 {
				// some entities carry a modification time (UnixFS 1.5), also one before 1970
				sr := rand.New(rand.NewSource(int64(c.Seed) ^ 0x5717))
				for _, n := range root.all() {
					if sr.Intn(3) == 0 {
						v := []int64{-1, -86400 * 365, 0, 1, 1 << 33, -(1 << 40)}[sr.Intn(6)]
						n.Stamp = &v
						c.Count("entities_with_mtime", 1)
						if v < 0 {
							c.Count("entities_with_mtime_before_1970", 1)
						}
					}
				}
			}
			if err := buildTree(st, root, nil); err != nil {
				c.Harness("tree build: %v", err)
				return
			}
			// every third tree is traversed with Reify installed as NodeReifier as well (blocks then arrive reified)
			ls := st.LinkSystemCfg(true, i%3 == 1, i%3 == 2)
			if i%3 == 0 && i%2 == 1 {
				// a link system derived by value from a configured one, reading from its own block source
				ls = st.LinkSystemDerived(store.New())
				c.Count("linksystem_derived", 1)
			}
			c.Count(fmt.Sprintf("linksystem_cfg_%d", i%3), 1)
			rr := c.Rand()
			walkNo := 0
			walk := func(path string, spec selbuilder.SelectorSpec, matchPath bool) ([]matchRec, error) {
				raw, err := loadRaw(st.LinkSystem(false), root.Cid)
				if err != nil {
					return nil, fmt.Errorf("harness: %w", err)
				}
				var ms []matchRec
				var werr error
				c.Guard("WalkMatching", func() {
					sel, e := selector.CompileSelector(unixfsnode.UnixFSPathSelectorBuilder(path, spec, matchPath))
					if e != nil {
						werr = fmt.Errorf("selector does not compile: %w", e)
						return
					}
					werr = progressFor(ls).WalkMatching(raw, sel, func(p traversal.Progress, n datamodel.Node) error {
						ms = append(ms, recordMatch(p, n))
						return nil
					})
					walkNo++
					if werr == nil && walkNo%5 == 0 {
						// the same compiled selector walked a second time from the same root: same matches
						var again []matchRec
						e2 := progressFor(ls).WalkMatching(raw, sel, func(p traversal.Progress, n datamodel.Node) error {
							again = append(again, recordMatch(p, n))
							return nil
						})
						c.Count("selectors_walked_twice", 1)
						if e2 != nil || fmt.Sprint(again) != fmt.Sprint(ms) {
							c.Violation("C03|second-walk-differs", "path %q: walking the compiled selector a second time gives %d matches (err %v), the first walk gave %d", path, len(again), e2, len(ms))
						}
					}
				})
				c.Count("traversals", 1)
				return ms, werr
			}
			nodes := root.all()
			for ni, n := range nodes {
				hl := 0
				cur := root
				for _, seg := range n.Path {
					if cur.Kind == "hamt" {
						hl++
					}
					cur = cur.child(seg)
				}
				norm := strings.Join(n.Path, "/")
				for ti, tg := range c03Targets {
					how := (ni + ti) % 4
					path := spell(n.Path, how)
					// ---- matchPath = false: exactly the target ----
					ms, err := walk(path, tg.Spec, false)
					if err != nil {
						c.Violation("C03|walk-error|"+tg.Name, "path %q target %s: %v", path, tg.Name, err)
						continue
					}
					c.Count("matches_compared", int64(len(ms)))
					if len(ms) != 1 {
						c.Violation(fmt.Sprintf("C03|match-count|%s|%s", tg.Name, n.Kind), "path %q (a %s at depth %d, %d HAMT levels) target %s: %d matches, want exactly 1", path, n.Kind, len(n.Path), hl, tg.Name, len(ms))
					} else {
						if ms[0].Path != norm {
							c.Violation("C03|match-path|"+tg.Name, "path %q target %s: match reported at %q, want %q", path, tg.Name, ms[0].Path, norm)
						}
						if d := matchesTarget(ms[0], n); d != "" {
							c.Violation(fmt.Sprintf("C03|match-content|%s|%s", tg.Name, n.Kind), "path %q target %s: %s", path, tg.Name, d)
						}
					}
					c.Sig(fmt.Sprintf("depth%d|hamt%d|%s|%s|mp=false|sp%d|hit", len(n.Path), hl, n.Kind, tg.Name, how), len(n.Path) >= 1)
					// ---- matchPath = true: every node along the path, in order, then the target ----
					if ti == ni%3 {
						ms, err = walk(path, tg.Spec, true)
						if err != nil {
							c.Violation("C03|walk-error|"+tg.Name+"|matchPath", "path %q target %s matchPath: %v", path, tg.Name, err)
							continue
						}
						c.Count("matches_compared", int64(len(ms)))
						var got []string
						for _, m := range ms {
							got = append(got, m.Path)
						}
						var want []string
						for k := 0; k <= len(n.Path); k++ {
							want = append(want, strings.Join(n.Path[:k], "/"))
						}
						if strings.Join(got, "\x00") != strings.Join(want, "\x00") {
							if len(n.Path) >= 1 && len(ms) == 1 && ms[0].Path == "" {
								c.Violation("C03|matchPath=true|target-never-reached", "path %q target %s matchPath=true: only the root was matched; want matches at %q", path, tg.Name, want)
							} else {
								c.Violation("C03|matchPath=true|wrong-match-list|"+tg.Name, "path %q target %s matchPath=true: matches at %q, want %q", path, tg.Name, got, want)
							}
						} else if d := matchesTarget(ms[len(ms)-1], n); d != "" {
							c.Violation("C03|matchPath=true|match-content|"+tg.Name, "path %q: %s", path, d)
						}
						c.Sig(fmt.Sprintf("depth%d|hamt%d|%s|%s|mp=true", len(n.Path), hl, n.Kind, tg.Name), len(n.Path) >= 1)
					}
				}
				// ---- explore-all target: loads path blocks + the whole sub-DAG ----
				// (with Reify as NodeReifier the target arrives reified, so 'explore all' walks the ADL view
				// rather than the raw blocks; the load-set claim is judged in the other configurations)
				if ni%2 == 0 && i%3 != 2 {
					c.Guard("explore-all", func() {
						st.Logging = true
						defer func() { st.Logging = false }()
						raw, _ := loadRaw(ls, root.Cid)
						st.ResetLog()
						sel, e := selector.CompileSelector(unixfsnode.UnixFSPathSelectorBuilder(norm, unixfsnode.ExploreAllRecursivelySelector, false))
						if e != nil {
							c.Violation("C03|walk-error|explore-all", "selector does not compile: %v", e)
							return
						}
						sawTarget := false
						err := progressFor(ls).WalkAdv(raw, sel, func(p traversal.Progress, _ datamodel.Node, _ traversal.VisitReason) error {
							if p.Path.String() == norm {
								sawTarget = true
							}
							return nil
						})
						c.Count("traversals", 1)
						if err != nil {
							c.Violation("C03|walk-error|explore-all", "path %q explore-all: %v", norm, err)
							return
						}
						if !sawTarget {
							c.Violation("C03|explore-all|target-not-visited", "path %q explore-all never visited the target", norm)
						}
						sub, err := walkerFor(st).DFS(n.Cid, nil)
						if err != nil {
							c.Harness("oracle: %v", err)
							return
						}
						got := uniq(st.ReadCids())
						for _, b := range sub {
							if !got[b.String()] && !b.Equals(root.Cid) {
								c.Violation("C03|explore-all|subdag-not-loaded", "path %q explore-all did not load block %s of the target's sub-DAG (%d blocks)", norm, b, len(sub))
								break
							}
						}
						c.Count("matches_compared", 1)
					})
				}
				// ---- perturbed paths naming no entry: nothing matches ----
				if ni%3 == 0 || len(n.Aliases) > 0 {
					var bad [][]string
					if len(n.Path) >= 1 {
						alt := append(append([]string(nil), n.Path[:len(n.Path)-1]...), n.Path[len(n.Path)-1]+"x")
						bad = append(bad, alt)
					}
					bad = append(bad, append(append([]string(nil), n.Path...), "no-such-entry"))
					for _, al := range n.Aliases {
						bad = append(bad, append(append([]string(nil), n.Path...), al))
					}
					// the field names of the underlying dag-pb node are not entries
					for _, fld := range []string{"Links", "Data", "Hash", "Links/0", "Links/0/Hash", "Data/x"} {
						segs := strings.Split(fld, "/")
						if n.isDir() && n.child(segs[0]) == nil {
							bad = append(bad, append(append([]string(nil), n.Path...), segs...))
						}
					}
					for _, dot := range []string{".", ".."} {
						if n.isDir() && n.child(dot) == nil {
							bad = append(bad, append(append([]string(nil), n.Path...), dot))
						}
					}
					if n.isDir() && len(nodes) > 2 {
						o := nodes[1+rr.Intn(len(nodes)-1)]
						if len(o.Path) > 0 && n.child(o.Path[len(o.Path)-1]) == nil {
							bad = append(bad, append(append([]string(nil), n.Path...), o.Path[len(o.Path)-1]))
						}
					}
					for bi, b := range bad {
						if root.resolve(b) != nil {
							continue
						}
						tg := c03Targets[(ni+bi)%3]
						ms, err := walk(spell(b, bi%4), tg.Spec, false)
						if err != nil {
							c.Violation("C03|miss-error|"+tg.Name, "path %q (names no entry) target %s: error %v, want no match and no error", spell(b, bi%4), tg.Name, err)
						} else if len(ms) != 0 {
							c.Violation("C03|miss-matched|"+tg.Name, "path %q names no entry but target %s matched %d node(s), first at %q", spell(b, bi%4), tg.Name, len(ms), ms[0].Path)
						}
						c.Count("misses_checked", 1)
						c.Sig(fmt.Sprintf("depth%d|%s|%s|miss", len(b), n.Kind, tg.Name), true)
					}
				}
			}
			c.Sample(map[string]any{"nodes": len(nodes), "root": root.Cid.String()})
		})
	}
	// paths of well over a hundred segments: a chain of equally named directories (every level a
	// different directory, since it holds a different rest of the chain) with a file at the bottom
	for _, depth := range []int{r.Pick(140, 260), r.Pick(131, 400)} {
		depth := depth
		r.Case(fmt.Sprintf("deep-path/%d", depth), map[string]any{"segments": depth}, func(c *mon.Case) {
			st := store.New()
			ls := st.LinkSystem(false)
			content := gen.Content(c.Rand(), "rand", 50)
			var fl ipld.Link
			var fsz uint64
			var err error
			withWidth(2, func() { fl, fsz, err = builder.BuildUnixFSFile(bytes.NewReader(content), "size-8", ls) })
			if err != nil {
				c.Harness("file: %v", err)
				return
			}
			// cids[k] is the directory k levels down; the deepest one holds the file "f"
			cids := make([]cid.Cid, depth+1)
			below, belowSz, name := fl, fsz, "f"
			for k := depth; k >= 0; k-- {
				e, err := builder.BuildUnixFSDirectoryEntry(name, int64(belowSz), below)
				if err != nil {
					c.Harness("entry: %v", err)
					return
				}
				marker, _ := builder.BuildUnixFSDirectoryEntry(fmt.Sprintf("level-%d", k), 1, cidlink.Link{Cid: st.PutBlock(1, cid.Raw, []byte{byte(k)})})
				l, sz, err := builder.BuildUnixFSDirectory([]dagpb.PBLink{e, marker}, ls)
				if err != nil {
					c.Harness("dir: %v", err)
					return
				}
				cids[k], below, belowSz, name = linkCid(l), l, sz, "d"
			}
			rls := st.LinkSystem(true)
			raw, err := loadRaw(rls, cids[0])
			if err != nil {
				c.Harness("load: %v", err)
				return
			}
			for _, k := range []int{1, 64, 127, 128, 129, depth - 1, depth} {
				if k > depth {
					continue
				}
				path := strings.Repeat("d/", k)
				want := fmt.Sprintf("level-%d", k)
				var ms []matchRec
				var werr error
				c.Guard("WalkMatching", func() {
					sel, e := selector.CompileSelector(unixfsnode.UnixFSPathSelector(path))
					if e != nil {
						werr = e
						return
					}
					werr = progressFor(rls).WalkMatching(raw, sel, func(p traversal.Progress, n datamodel.Node) error {
						ms = append(ms, recordMatch(p, n))
						return nil
					})
				})
				c.Count("traversals", 1)
				c.Count("deep_paths", 1)
				if werr != nil || len(ms) != 1 {
					c.Violation("C03|match-count|deep-path", "a path of %d segments: %d matches, err %v", k, len(ms), werr)
					continue
				}
				if _, ok := ms[0].Ents[want]; !ok {
					c.Violation("C03|match-content|deep-path", "a path of %d segments matched a directory that is not the one %d levels down (its entries: %v)", k, k, keysOf(ms[0].Ents))
				}
			}
			// the file at the very bottom
			var fm []matchRec
			c.Guard("WalkMatching", func() {
				sel, e := selector.CompileSelector(unixfsnode.UnixFSPathSelector(strings.Repeat("d/", depth) + "f"))
				if e == nil {
					progressFor(rls).WalkMatching(raw, sel, func(p traversal.Progress, n datamodel.Node) error {
						fm = append(fm, recordMatch(p, n))
						return nil
					})
				}
			})
			if len(fm) != 1 || !bytes.Equal(fm[0].Bytes, content) {
				c.Violation("C03|match-content|deep-path", "the file below %d directories: %d matches", depth, len(fm))
			}
			c.Sig(fmt.Sprintf("deep-path|%s", sizeClass(depth)), true)
		})
	}
}

func keysOf(m map[string]cid.Cid) []string {
	var out []string
	for k := range m {
		out = append(out, k)
	}
	sort.Strings(out)
	if len(out) > 6 {
		out = out[:6]
	}
	return out
}

var _ ipld.Node
