package props

import (
	"fmt"
	"math"

	"verifharness/mon"
)

// fileCase is the complete generator input of one file build.
type fileCase struct {
	Width   int    `json:"width"`
	Chunker string `json:"chunker"`
	Len     int    `json:"len"`
	Kind    string `json:"content"` // rand | zero | period3 | period8
	Note    string `json:"note,omitempty"`
}

func (f fileCase) id(prefix string) string {
	return fmt.Sprintf("%s/w%d/%s/len%d/%s", prefix, f.Width, f.Chunker, f.Len, f.Kind)
}

// fileCases is the structured enumeration of section 2.1 of DESIGN.md: for a
// link width w every chunk count 0..w^3+w+2 (which enumerates every
// balanced-tree shape up to four levels) with tails {0,1,k-1}; the default
// width on its boundaries with one-byte chunks; content-defined chunkers.
func fileCases(r *mon.Run) []fileCase {
	var out []fileCase
	add := func(w int, ch string, n int, kind, note string) {
		out = append(out, fileCase{w, ch, n, kind, note})
	}
	k := 4
	small := []int{2, 3, 4}
	if !r.Quick() {
		small = []int{2, 3, 4, 5, 6}
	}
	for _, w := range small {
		max := w*w*w + w + 2
		for n := 0; n <= max; n++ {
			for _, t := range []int{0, 1, k - 1} {
				if n == 0 && t != 0 {
					continue
				}
				l := n*k + t
				if t != 0 {
					l = (n-1)*k + t // n chunks, the last one short
				}
				add(w, "size-4", l, "rand", "")
			}
		}
		// repeated chunks: identical leaves are de-duplicated in storage
		for _, n := range []int{2, w, w + 1, w*w + 1, w*w*w + 1} {
			add(w, "size-4", n*k, "zero", "dedup")
			add(w, "size-4", n*k+1, "period8", "dedup")
		}
	}
	mid := []int{7, 8, 16}
	if r.Quick() {
		mid = []int{7}
	}
	for _, w := range mid {
		for n := 0; n <= w*w+w+2; n++ {
			if r.Quick() && n > w+2 && n < w*w-1 && n%5 != 0 {
				continue
			}
			add(w, "size-2", n*2, "rand", "")
		}
		for _, n := range []int{w*w*w - 1, w * w * w, w*w*w + 1} {
			if w <= 8 || !r.Quick() {
				add(w, "size-1", n, "rand", "")
			}
		}
	}
	// the real default width on its boundaries (one-byte chunks)
	def := []int{0, 1, 2, 173, 174, 175, 176, 347, 348, 349, 350, 174*174 + 1}
	if !r.Quick() {
		def = append(def, 174*174-1, 174*174, 174*174+175, 2*174*174+1)
	}
	for _, n := range def {
		add(174, "size-1", n, "rand", "default-width")
	}
	add(174, "size-2", 349*2-1, "rand", "default-width")
	// widths above the default (configurations such as a 'wide' profile)
	for _, w := range []int{175, 256, 1024} {
		for _, n := range []int{w - 1, w, w + 1, 2*w + 1} {
			add(w, "size-1", n, "rand", "wide")
		}
	}
	if !r.Quick() {
		add(256, "size-1", 256*256+1, "rand", "wide")
	}
	// tall narrow trees: width 2 beyond 2^14 chunks (16 and more levels)
	add(2, "size-1", 1<<14, "rand", "tall")
	add(2, "size-1", 1<<14+1, "rand", "tall")
	add(2, "size-1", 1<<15+3, "rand", "tall")
	if !r.Quick() {
		add(2, "size-1", 1<<17+1, "rand", "tall")
		add(3, "size-1", 59049+1, "rand", "tall")
	}
	// "never nest": link widths far beyond any file (up to the largest int)
	for _, w := range []int{1 << 31, 1 << 40, math.MaxInt - 1, math.MaxInt} {
		for _, n := range []int{0, 1, 2, 9} {
			add(w, "size-3", n*3, "rand", "unbounded-width")
		}
	}
	// lengths at which a varint in the metadata grows by a byte (file sizes, block sizes, Tsize)
	for _, n := range []int{127, 128, 129, 16383, 16384, 16385} {
		add(3, "size-4096", n, "rand", "varint-edge")
		add(2, "size-128", n, "rand", "varint-edge")
	}
	for _, n := range []int{2097151, 2097152, 2097153} {
		add(2, "size-262144", n, "rand", "varint-edge")
	}
	// other chunk sizes
	for _, ks := range []int{1, 3, 7, 16, 256} {
		for _, n := range []int{1, 2, 5, 10} {
			add(3, fmt.Sprintf("size-%d", ks), n*ks-(ks/2), "rand", "")
		}
	}
	// the largest chunk size the chunkers accept, and one byte less
	add(2, "size-1048576", 1<<20+5, "rand", "max-chunk")
	add(2, "size-1048575", 1<<20+5, "rand", "max-chunk")
	if !r.Quick() {
		add(2, "size-1048576", 3<<20, "zero", "max-chunk")
		add(3, "size-1048576", 1<<20, "rand", "max-chunk")
	}
	// content-defined chunkers (tiny rabin windows give many chunks from few KiB)
	rab := []int{0, 1, 15, 16, 17, 100, 1000, 5000}
	if !r.Quick() {
		rab = append(rab, 20000, 65536)
	}
	for _, n := range rab {
		add(3, "rabin-16-32-64", n, "rand", "")
		add(2, "rabin-32-64-128", n, "rand", "")
	}
	big := []int{1 << 20}
	if !r.Quick() {
		big = []int{1 << 20, 1<<20 + 1, 3<<20 + 12345}
	}
	for _, n := range big {
		for _, ch := range []string{"", "default", "rabin", "buzhash", "rabin-65536", "size-262144"} {
			if r.Quick() && (ch == "default" || ch == "rabin-65536" || ch == "size-262144") {
				continue
			}
			add(2, ch, n, "rand", "big")
			if !r.Quick() {
				add(3, ch, n, "rand", "big")
			}
		}
	}
	// seeded random fill-in
	rnd := newRand(r.SeedFor("filecases"))
	for i := 0; i < r.Pick(150, 4000); i++ {
		w := []int{2, 3, 4, 5, 7}[rnd.Intn(5)]
		ks := []int{1, 2, 3, 4, 5, 8, 13}[rnd.Intn(7)]
		n := rnd.Intn(w*w*w + 2*w)
		l := n * ks
		if l > 0 && rnd.Intn(2) == 0 {
			l -= rnd.Intn(ks)
		}
		kind := []string{"rand", "rand", "zero", "period3", "period8"}[rnd.Intn(5)]
		add(w, fmt.Sprintf("size-%d", ks), l, kind, "random")
	}
	return out
}
