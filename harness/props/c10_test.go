package props

import (
	"bytes"
	"crypto/sha256"
	"fmt"
	"io"
	"math/rand"
	"os"
	"path/filepath"
	"runtime"
	"strings"
	"sync"
	"testing"
	"testing/iotest"

	"github.com/ipfs/go-cid"
	"github.com/ipfs/go-unixfsnode/data/builder"
	quickbuilder "github.com/ipfs/go-unixfsnode/data/builder/quick"
	dagpb "github.com/ipld/go-codec-dagpb"
	"github.com/ipld/go-ipld-prime"
	cidlink "github.com/ipld/go-ipld-prime/linking/cid"
	"github.com/multiformats/go-multihash"

	"verifharness/gen"
	"verifharness/mon"
	"verifharness/oracle"
	"verifharness/store"
)

// fragReader delivers its content in seeded fragment sizes, optionally
// interleaving (0, nil) returns and delivering the last bytes together with EOF.
type fragReader struct {
	b       []byte
	r       *rand.Rand
	max     int
	zeros   bool
	withEOF bool
}

func (f *fragReader) Read(p []byte) (int, error) {
	if f.zeros && f.r.Intn(4) == 0 {
		return 0, nil
	}
	if len(f.b) == 0 {
		return 0, io.EOF
	}
	n := 1 + f.r.Intn(f.max)
	if n > len(p) {
		n = len(p)
	}
	if n > len(f.b) {
		n = len(f.b)
	}
	copy(p, f.b[:n])
	f.b = f.b[n:]
	if len(f.b) == 0 && f.withEOF {
		return n, io.EOF
	}
	return n, nil
}

type buildResult struct {
	root  cid.Cid
	size  uint64
	err   string
	order string
}

func (b buildResult) key() string { return fmt.Sprintf("%s/%d/%s", b.root, b.size, b.err) }

func orderHash(st *store.Store) string {
	h := sha256.New()
	for _, e := range st.Log() {
		if e.Op == "commit" {
			h.Write([]byte(e.Cid))
		}
	}
	return fmt.Sprintf("%x", h.Sum(nil)[:8])
}

// withWidthNoLock runs f; the link width is set by the caller for all goroutines at once.
func withWidthNoLock(f func()) { f() }

// lazyDir is a caller-made quick-builder Node whose directory is built when it is first asked about.
type lazyDir struct {
	b     *quickbuilder.Builder
	make  func() map[string]quickbuilder.Node
	built quickbuilder.Node
}

func (l *lazyDir) node() quickbuilder.Node {
	if l.built == nil {
		l.built = l.b.NewMapDirectory(l.make())
	}
	return l.built
}
func (l *lazyDir) Size() (int64, error) { return l.node().Size() }
func (l *lazyDir) Link() ipld.Link      { return l.node().Link() }

func TestC10(t *testing.T) {
	r := mon.Start(t, "C10")
	defer r.Close()
	R, P, F := r.Pick(10, 48), r.Pick(10, 48), r.Pick(10, 32)

	// ---- files: repeats and fragmentations ----
	type fcase struct {
		W     int
		Ch    string
		N     int
		Kind  string
		Chunk int
	}
	var fcs []fcase
	for _, w := range []int{2, 3, 174} {
		for _, n := range []int{0, 1, 4, 5, 17, 64, 200} {
			fcs = append(fcs, fcase{w, "size-4", n, "rand", 4})
		}
	}
	fcs = append(fcs, fcase{3, "rabin-16-32-64", 3000, "rand", 32}, fcase{2, "rabin-32-64-128", 5000, "period8", 64}, fcase{2, "size-1", 40, "zero", 1}, fcase{3, "buzhash", 300000, "rand", 131072}, fcase{2, "", 600000, "rand", 262144}, fcase{3, "", 0, "rand", 262144}, fcase{174, "", 77, "rand", 262144}, fcase{2, "", 262144, "zero", 262144}, fcase{2, "", 262145, "rand", 262144},
		// chunkers given by their average size only; contents shorter than that average (the minimum is a third of it)
		fcase{3, "rabin-4096", 3000, "rand", 1365}, fcase{2, "rabin-1024", 900, "rand", 341}, fcase{2, "rabin-2048", 2047, "rand", 682}, fcase{3, "rabin-512", 400, "rand", 170}, fcase{2, "size-4096", 3000, "rand", 4096})
	if !r.Quick() {
		fcs = append(fcs, fcase{2, "rabin", 700000, "rand", 262144}, fcase{4, "size-7", 1000, "period3", 7}, fcase{174, "size-1", 30277, "rand", 1})
	}
	if r.Reverse {
		for i, j := 0, len(fcs)-1; i < j; i, j = i+1, j-1 {
			fcs[i], fcs[j] = fcs[j], fcs[i]
		}
	}
	for _, fc := range fcs {
		fc := fc
		r.Case(fmt.Sprintf("file/w%d/%s/len%d/%s", fc.W, fc.Ch, fc.N, fc.Kind), fc, func(c *mon.Case) {
			content := gen.Content(c.Rand(), fc.Kind, fc.N)
			rr := c.Rand()
			build := func(src io.Reader) buildResult {
				st := store.New()
				st.Logging = true
				var res buildResult
				c.Guard("BuildUnixFSFile", func() {
					withWidth(fc.W, func() {
						l, sz, err := builder.BuildUnixFSFile(src, fc.Ch, st.LinkSystem(false))
						res.root, res.size = linkCid(l), sz
						if err != nil {
							res.err = err.Error()
						}
					})
				})
				res.order = orderHash(st)
				return res
			}
			base := build(bytes.NewReader(content))
			if base.err != "" {
				c.Violation("C10|build-error", "build failed: %s", base.err)
				return
			}
			orders := map[string]bool{base.order: true}
			cmp := func(kind string, res buildResult) {
				c.Count("builds_compared", 1)
				orders[res.order] = true
				if res.key() != base.key() {
					c.Violation("C10|file|"+kind, "width %d %s %d bytes: %s build returned (%s, %d, err %q), plain reader gave (%s, %d)", fc.W, fc.Ch, fc.N, kind, res.root, res.size, res.err, base.root, base.size)
				}
			}
			for i := 0; i < 3; i++ {
				cmp("repeat", build(bytes.NewReader(content)))
			}
			cmp("frag-onebyte", build(iotest.OneByteReader(bytes.NewReader(content))))
			cmp("frag-half", build(iotest.HalfReader(bytes.NewReader(content))))
			cmp("frag-dataerr", build(iotest.DataErrReader(bytes.NewReader(content))))
			// a seekable source that the caller has already read a header from: the logical input is
			// what is left in it
			{
				hdr := gen.Content(rr, "rand", 1+rr.Intn(9))
				br := bytes.NewReader(append(append([]byte(nil), hdr...), content...))
				br.Seek(int64(len(hdr)), io.SeekStart)
				cmp("positioned-seekable", build(br))
				sr := strings.NewReader(string(hdr) + string(content))
				io.CopyN(io.Discard, sr, int64(len(hdr)))
				cmp("positioned-seekable", build(sr))
			}
			for i := 0; i < F; i++ {
				fr := &fragReader{b: content, r: rand.New(rand.NewSource(rr.Int63())), max: 1 + rr.Intn(3*fc.Chunk), zeros: i%2 == 1, withEOF: i%3 == 2}
				cmp("frag-random", build(fr))
			}
			if fc.Ch == "" {
				// the same bytes as an on-disk file taken in by the path-taking entry point (default chunker)
				if dir, err := os.MkdirTemp("", "verif-c10-"); err == nil {
					fp := filepath.Join(dir, "the-file")
					if os.WriteFile(fp, content, 0o644) == nil {
						st := store.New()
						var res buildResult
						c.Guard("BuildUnixFSRecursive on one file", func() {
							withWidth(fc.W, func() {
								l, sz, err := builder.BuildUnixFSRecursive(fp, st.LinkSystem(false))
								res.root, res.size = linkCid(l), sz
								if err != nil {
									res.err = err.Error()
								}
							})
						})
						res.order = base.order
						cmp("via-recursive-import", res)
						c.Count("recursive_import_of_one_file", 1)
					}
					os.RemoveAll(dir)
				}
			}
			c.Max("max_distinct_write_orders_file", int64(len(orders)))
			c.Result(base.key())
			c.Sig(fmt.Sprintf("file|w%d|%s|n%s", fc.W, chunkerKind(fc.Ch), sizeClass(fc.N/fc.Chunk)), fc.N > fc.Chunk)
		})
	}

	// ---- directories: repeats and permutations ----
	type dcase struct {
		Builder string
		Fanout  int
		Family  string
		N       int
		Hasher  uint64 // 0 = murmur3-x64-64
	}
	var dcs []dcase
	for _, f := range allFanouts {
		dcs = append(dcs, dcase{Builder: "sharded", Fanout: f, Family: "ascii", N: 3 * f}, dcase{Builder: "sharded", Fanout: f, Family: "hexpairs", N: 60}, dcase{Builder: "sharded", Fanout: f, Family: "mixed", N: 40}, dcase{Builder: "sharded", Fanout: f, Family: "aliaspairs"})
		if !r.Quick() {
			dcs = append(dcs, dcase{Builder: "sharded", Fanout: f, Family: "hexprefix", N: 500}, dcase{Builder: "sharded", Fanout: f, Family: "crafted-deep", N: 5}, dcase{Builder: "sharded", Fanout: f, Family: "ascii", N: 5000})
		}
	}
	dcs = append(dcs, dcase{Builder: "sharded", Fanout: 16, Family: "collide64", N: 3}, dcase{Builder: "sharded", Fanout: 256, Family: "collide64", N: 2}, dcase{Builder: "sharded", Fanout: 8, Family: "collide64", N: 4})
	dcs = append(dcs, dcase{Builder: "sharded", Fanout: 16, Family: "crafted-deep", N: 4}, dcase{Builder: "sharded", Fanout: 8, Family: "crafted-deep", N: 5})
	// the sharded builder accepts any registered hasher; the result must still be a function of the input
	for _, h := range []uint64{multihash.SHA2_256, multihash.SHA2_512, multihash.SHA3_256, multihash.BLAKE2B_MIN + 31} {
		dcs = append(dcs, dcase{"sharded", 16, "ascii", 60, h}, dcase{"sharded", 256, "mixed", 300, h})
	}
	if r.Reverse {
		for i, j := 0, len(dcs)-1; i < j; i, j = i+1, j-1 {
			dcs[i], dcs[j] = dcs[j], dcs[i]
		}
	}
	dcs = append(dcs, dcase{Builder: "auto", Family: "badutf8", N: 60}, dcase{Builder: "sharded", Fanout: 16, Family: "badutf8", N: 60}, dcase{Builder: "quick", Family: "badutf8", N: 40})
	for _, n := range []int{0, 1, 7, 300} {
		dcs = append(dcs, dcase{Builder: "auto", Family: "mixed", N: n}, dcase{Builder: "quick", Family: "ascii", N: n})
	}
	dcs = append(dcs, dcase{Builder: "auto", Family: "mixedhash", N: 12}, dcase{Builder: "auto", Family: "mixedhash", N: 3}, dcase{Builder: "sharded", Fanout: 16, Family: "mixedhash", N: 60}, dcase{Builder: "quick", Family: "mixedhash", N: 9})
	dcs = append(dcs, dcase{Builder: "auto", Family: "mixedcids-under", N: 1111}, dcase{Builder: "auto", Family: "mixedcids-over", N: 1112}, dcase{Builder: "auto", Family: "long", N: 1024}, dcase{Builder: "auto", Family: "long", N: 1025}, dcase{Builder: "quick", Family: "mixedcids-under", N: 1111})
	for _, d := range dcs {
		d := d
		r.Case(fmt.Sprintf("dir/%s/f%d/%s/n%d/h%x", d.Builder, d.Fanout, d.Family, d.N, d.Hasher), d, func(c *mon.Case) {
			rr := c.Rand()
			base := store.New()
			var names []string
			mixedCids := false
			switch d.Family {
			case "hexpairs":
				for _, b := range gen.Names(rr, gen.FamASCII, d.N/4) {
					names = append(names, b, "0"+b, "1"+b, "F"+b)
				}
			case "aliaspairs":
				// pairs (b, d+b) whose link names would coincide if the bucket index
				// were not zero-padded to a fixed width: hex(bucket(b)) == hex(bucket(d+b)) + d
				for _, b := range gen.Names(rr, gen.FamASCII, 4000) {
					hb := fmt.Sprintf("%X", oracle.HashPath(b, d.Fanout)[0])
					if len(hb) < 2 {
						continue
					}
					cand := hb[len(hb)-1:] + b
					if fmt.Sprintf("%X", oracle.HashPath(cand, d.Fanout)[0]) == hb[:len(hb)-1] {
						names = append(names, b, cand)
					}
				}
				names = append(names, gen.Names(rr, gen.FamMixed, 20)...)
				c.Count("alias_pairs", int64(len(names)-20)/2)
			case "crafted-deep":
				names = gen.SharedPrefixNames(rr, d.N, 24)
			case "collide64":
				// distinct names with one and the same 64-bit digest, among ordinary names: no HAMT can hold
				// them, so every order must fail alike (or, if a build ever succeeds, succeed alike)
				names = append(gen.CollidingNames(rr, d.N), gen.Names(rr, gen.FamASCII, 10)...)
			case "mixedcids-under", "mixedcids-over":
				// 200-byte names; true estimate 261996 (under) or 262232 (over the 262144 threshold)
				for i := 0; i < d.N; i++ {
					b := bytes.Repeat([]byte{'n'}, 200)
					copy(b, fmt.Sprintf("%06d-", i))
					names = append(names, string(b))
				}
				mixedCids = true
			case "mixedhash":
				names = gen.Names(rr, gen.FamASCII, d.N)
			default:
				dd := dirCase{Family: d.Family, N: d.N}
				names = namesFor(c, dd)
			}
			entries, model, sizes := childEntries(base, names)
			if d.Family == "mixedhash" {
				// children addressed with different hash functions and digest lengths (a tree assembled
				// from several sources): what the directory is stored under cannot depend on which comes first
				entries = entries[:0]
				kinds := []struct {
					code uint64
					ln   int
				}{{multihash.SHA2_256, -1}, {multihash.SHA2_512, -1}, {multihash.SHA2_256, 20}, {multihash.BLAKE2B_MIN + 31, -1}, {multihash.SHA3_256, -1}, {multihash.IDENTITY, -1}}
				for i, n := range names {
					k := kinds[(i+int(c.Seed%6))%len(kinds)]
					mh, err := multihash.Sum([]byte("child "+n), k.code, k.ln)
					if err != nil {
						c.Harness("multihash %x: %v", k.code, err)
						return
					}
					cc := cid.NewCidV1(cid.Raw, mh)
					model[n] = cc
					e, _ := builder.BuildUnixFSDirectoryEntry(n, int64(sizes[n]), cidlink.Link{Cid: cc})
					entries = append(entries, e)
				}
			}
			if mixedCids {
				// a tenth of the entries point at CIDv0 (34-byte) links
				entries = entries[:0]
				for i, n := range names {
					cc := model[n]
					if i%11 == 0 {
						cc = base.PutBlock(0, cid.DagProtobuf, encodePB([]byte{8, 2, 0x12, 2, byte(i), byte(i >> 8)}, true, nil))
						model[n] = cc
					}
					e, _ := builder.BuildUnixFSDirectoryEntry(n, int64(sizes[n]), cidlink.Link{Cid: cc})
					entries = append(entries, e)
				}
			}
			build := func(es []dagpb.PBLink) buildResult {
				st := base.Clone()
				st.Logging = true
				var res buildResult
				c.Guard("directory build", func() {
					var root cid.Cid
					var sz uint64
					var err error
					dc := dirCase{Builder: d.Builder, Fanout: d.Fanout}
					if d.Hasher != 0 {
						l, s, e := builder.BuildUnixFSShardedDirectory(d.Fanout, d.Hasher, es, st.LinkSystem(false))
						root, sz, err = linkCid(l), s, e
					} else if d.Builder == "quick" {
						// the quick builder takes a Go map: iteration order is the schedule
						root, sz, err = buildDir(dc, st, nil, model, sizes)
					} else {
						root, sz, err = buildDir(dc, st, es, model, sizes)
					}
					res.root, res.size = root, sz
					if err != nil {
						res.err = err.Error()
					}
				})
				res.order = orderHash(st)
				return res
			}
			pristine := append([]dagpb.PBLink(nil), entries...)
			b0 := build(entries)
			orders := map[string]bool{b0.order: true}
			if len(entries) >= 3 {
				// the caller's slice after a build: a part of it builds what a part of an untouched copy builds
				k := 1 + rr.Intn(len(entries)-1)
				part, ref := build(entries[:k]), build(pristine[:k])
				c.Count("builds_compared", 1)
				if part.key() != ref.key() {
					c.Violation("C10|dir|caller-slice-changed|"+d.Builder, "%s fanout %d: after a build from a slice of %d entries, its first %d entries build (%s, %d, %q); the first %d entries of a copy taken before build (%s, %d, %q)", d.Builder, d.Fanout, len(entries), k, part.root, part.size, part.err, k, ref.root, ref.size, ref.err)
				}
			}
			for i := 0; i < R; i++ {
				res := build(entries)
				c.Count("builds_compared", 1)
				orders[res.order] = true
				if res.key() != b0.key() {
					c.Violation("C10|dir|repeat|"+d.Builder, "%s fanout %d, %d entries (%s): repeat %d returned (%s, %d, %q), first build (%s, %d, %q)", d.Builder, d.Fanout, len(names), d.Family, i, res.root, res.size, res.err, b0.root, b0.size, b0.err)
					break
				}
			}
			for i := 0; i < P; i++ {
				perm := append([]dagpb.PBLink(nil), entries...)
				switch i {
				case 0:
					for a, b := 0, len(perm)-1; a < b; a, b = a+1, b-1 {
						perm[a], perm[b] = perm[b], perm[a]
					}
				case 1:
					if len(perm) > 1 {
						perm = append(perm[1:], perm[0])
					}
				default:
					mon.Shuffle(rr, perm)
				}
				res := build(perm)
				c.Count("builds_compared", 1)
				c.Count("permutations", 1)
				orders[res.order] = true
				if res.key() != b0.key() {
					c.Violation("C10|dir|permutation|"+d.Builder, "%s fanout %d, %d entries (%s): permutation %d returned (%s, %d, %q), original order (%s, %d, %q)", d.Builder, d.Fanout, len(names), d.Family, i, res.root, res.size, res.err, b0.root, b0.size, b0.err)
					break
				}
			}
			// the same build by three goroutines at once over one shared LinkSystem
			if d.Builder != "quick" && len(names) > 1 && len(names) <= 400 {
				st := base.Clone()
				st.OnCommit = func(*store.Store, cid.Cid, []byte) { runtime.Gosched() }
				ls := st.LinkSystem(false)
				outs := make([]buildResult, 3)
				var wg sync.WaitGroup
				var omu sync.Mutex
				var omsgs []string
				if d.Builder == "sharded" {
					// ... while two more goroutines build the same entries at ANOTHER fanout (into a store of
					// their own): builds of different widths share nothing
					otherF := 16
					if d.Fanout == 16 {
						otherF = 512
					}
					h := d.Hasher
					if h == 0 {
						h = multihash.MURMUR3X64_64
					}
					ol, osz, oerr := builder.BuildUnixFSShardedDirectory(otherF, h, entries, base.Clone().LinkSystem(false))
					for g := 0; g < 2; g++ {
						wg.Add(1)
						go func() {
							defer wg.Done()
							defer func() {
								if p := recover(); p != nil {
									omu.Lock()
									omsgs = append(omsgs, fmt.Sprintf("a fanout-%d build running next to fanout-%d builds panicked: %v", otherF, d.Fanout, p))
									omu.Unlock()
								}
							}()
							ost := base.Clone()
							ost.OnCommit = func(*store.Store, cid.Cid, []byte) { runtime.Gosched() }
							for rep := 0; rep < 3; rep++ {
								l, sz, err := builder.BuildUnixFSShardedDirectory(otherF, h, entries, ost.LinkSystem(false))
								if (err == nil) != (oerr == nil) || (err == nil && (l.String() != ol.String() || sz != osz)) {
									omu.Lock()
									omsgs = append(omsgs, fmt.Sprintf("%d entries built at fanout %d while other goroutines build them at fanout %d: (%v, %d, %v), alone (%v, %d, %v)", len(names), otherF, d.Fanout, l, sz, err, ol, osz, oerr))
									omu.Unlock()
									return
								}
							}
						}()
					}
					c.Count("concurrent_builds_of_mixed_fanouts", 1)
				}
				for g := 0; g < 3; g++ {
					wg.Add(1)
					go func(g int) {
						defer wg.Done()
						defer func() {
							if p := recover(); p != nil {
								outs[g].err = fmt.Sprint("panic: ", p)
							}
						}()
						var l ipld.Link
						var sz uint64
						var err error
						if d.Builder == "sharded" {
							h := d.Hasher
							if h == 0 {
								h = multihash.MURMUR3X64_64
							}
							l, sz, err = builder.BuildUnixFSShardedDirectory(d.Fanout, h, entries, ls)
						} else {
							l, sz, err = builder.BuildUnixFSDirectory(entries, ls)
						}
						outs[g] = buildResult{root: linkCid(l), size: sz}
						if err != nil {
							outs[g].err = err.Error()
						}
					}(g)
				}
				wg.Wait()
				for _, m := range omsgs {
					c.Violation("C10|dir|concurrent|other-fanout", "%s", m)
				}
				for g, o := range outs {
					c.Count("builds_compared", 1)
					if o.key() != b0.key() {
						c.Violation("C10|dir|concurrent|"+d.Builder, "%s fanout %d, %d entries: concurrent build %d returned (%s, %d, %q), alone (%s, %d, %q)", d.Builder, d.Fanout, len(names), g, o.root, o.size, o.err, b0.root, b0.size, b0.err)
						break
					}
				}
			}
			c.Max("max_distinct_write_orders", int64(len(orders)))
			c.Result(b0.key())
			c.Sig(fmt.Sprintf("dir|%s|f%d|h%x|%s|%s", d.Builder, d.Fanout, d.Hasher, d.Family, sizeClass(len(names))), len(names) >= 2)
			c.Sample(map[string]any{"builder": d.Builder, "entries": len(names), "root": b0.root.String(), "size": b0.size, "distinct_write_orders": len(orders), "builds": 1 + R + P})
		})
	}
	// symlinks are pure functions of their target text
	// several files built at the same time (each goroutine its own content, store and link system):
	// every one of them has to come out as it does when built alone
	for round := 0; round < r.Pick(4, 24); round++ {
		round := round
		r.Case(fmt.Sprintf("file-concurrent/%d", round), map[string]any{"goroutines": 12, "round": round}, func(c *mon.Case) {
			rr := c.Rand()
			const G = 12
			contents := make([][]byte, G)
			alone := make([]buildResult, G)
			one := func(content []byte) buildResult {
				var res buildResult
				st := store.New()
				withWidthNoLock(func() {
					l, sz, err := builder.BuildUnixFSFile(bytes.NewReader(content), "size-7", st.LinkSystem(false))
					res.root, res.size = linkCid(l), sz
					if err != nil {
						res.err = err.Error()
					}
				})
				return res
			}
			old := builder.DefaultLinksPerBlock
			builder.DefaultLinksPerBlock = 3
			defer func() { builder.DefaultLinksPerBlock = old }()
			for g := range contents {
				contents[g] = gen.Content(rr, "rand", 200+rr.Intn(3000))
				alone[g] = one(contents[g])
			}
			for rep := 0; rep < 20; rep++ {
				got := make([]buildResult, G)
				var wg sync.WaitGroup
				start := make(chan struct{})
				for g := 0; g < G; g++ {
					wg.Add(1)
					go func(g int) {
						defer wg.Done()
						defer func() {
							if p := recover(); p != nil {
								got[g].err = fmt.Sprint("panic: ", p)
							}
						}()
						<-start
						got[g] = one(contents[g])
					}(g)
				}
				close(start)
				wg.Wait()
				c.Count("builds_compared", G)
				for g := range got {
					if got[g].key() != alone[g].key() {
						c.Violation("C10|file|concurrent", "a file of %d bytes built while %d other files are being built comes out as (%s, %d, %q); built alone it is (%s, %d)", len(contents[g]), G-1, got[g].root, got[g].size, got[g].err, alone[g].root, alone[g].size)
						return
					}
				}
			}
			c.Sig("file-concurrent", true)
		})
	}
	// what was built before must not matter: the same content with different chunk sizes, in different
	// orders, gives each (content, chunk size) its own fixed result
	for round := 0; round < r.Pick(6, 40); round++ {
		round := round
		r.Case(fmt.Sprintf("build-history/%d", round), map[string]any{"round": round}, func(c *mon.Case) {
			rr := c.Rand()
			n := 600 + rr.Intn(900)
			content := gen.Content(rr, "rand", n)
			// chunk sizes that give the same number of chunks for this length (and some that do not)
			var sizes []int
			for _, parts := range []int{2, 3, 3, 3, 4} {
				lo, hi := (n+parts-1)/parts, n/(parts-1)-1
				if parts == 1 || hi < lo {
					continue
				}
				sizes = append(sizes, lo+rr.Intn(hi-lo+1))
			}
			one := func(k int) buildResult {
				var res buildResult
				st := store.New()
				c.Guard("BuildUnixFSFile", func() {
					withWidth(4, func() {
						l, sz, err := builder.BuildUnixFSFile(bytes.NewReader(content), fmt.Sprintf("size-%d", k), st.LinkSystem(false))
						res.root, res.size = linkCid(l), sz
						if err != nil {
							res.err = err.Error()
						}
					})
				})
				return res
			}
			first := map[int]buildResult{}
			for pass := 0; pass < 4; pass++ {
				order := append([]int(nil), sizes...)
				mon.Shuffle(rr, order)
				for _, k := range order {
					res := one(k)
					c.Count("builds_compared", 1)
					if prev, ok := first[k]; !ok {
						first[k] = res
					} else if prev.key() != res.key() {
						c.Violation("C10|file|history", "%d bytes with size-%d built after other builds of the same content with other chunk sizes gives (%s, %d, %q); earlier in this process it gave (%s, %d)", n, k, res.root, res.size, res.err, prev.root, prev.size)
						return
					}
				}
			}
			c.Result(fmt.Sprint(first))
			c.Sig("build-history", len(sizes) >= 2)
		})
	}
	// quick-builder nodes are values: one node put under several names, in one directory or in two,
	// gives what separately made nodes give
	r.Case("quick-node-reuse", map[string]any{"directories": 3}, func(c *mon.Case) {
		rr := c.Rand()
		for round := 0; round < 6; round++ {
			st := store.New()
			ls := st.LinkSystem(false)
			fdata := gen.Content(rr, "rand", 10+rr.Intn(300))
			gdata := gen.Content(rr, "rand", 10+rr.Intn(300))
			type dres struct {
				names []string
				link  ipld.Link
			}
			var got []dres
			var flink, glink ipld.Link
			var fsz, gsz int64
			ok := c.Guard("quick builder", func() {
				quickbuilder.Store(ls, func(b *quickbuilder.Builder) error {
					f := b.NewBytesFile(fdata)
					g := b.NewBytesFile(gdata)
					flink, glink = f.Link(), g.Link()
					fsz, _ = f.Size()
					gsz, _ = g.Size()
					d1 := b.NewMapDirectory(map[string]quickbuilder.Node{"first-name": f})
					got = append(got, dres{[]string{"first-name"}, d1.Link()})
					d2 := b.NewMapDirectory(map[string]quickbuilder.Node{"other-name": f, "x": g})
					got = append(got, dres{[]string{"other-name", "x"}, d2.Link()})
					d3 := b.NewMapDirectory(map[string]quickbuilder.Node{"n1": f, "n2": f, "a": g, "zz": f})
					got = append(got, dres{[]string{"n1", "n2", "a", "zz"}, d3.Link()})
					return nil
				})
			})
			if !ok || len(got) != 3 {
				return
			}
			for _, d := range got {
				var entries []dagpb.PBLink
				for _, nm := range d.names {
					l, sz := flink, fsz
					if nm == "x" || nm == "a" {
						l, sz = glink, gsz
					}
					e, err := builder.BuildUnixFSDirectoryEntry(nm, sz, l)
					if err != nil {
						c.Harness("entry: %v", err)
						return
					}
					entries = append(entries, e)
				}
				want, _, err := builder.BuildUnixFSDirectory(entries, store.New().LinkSystem(false))
				c.Count("builds_compared", 1)
				if err != nil || d.link == nil || want.String() != d.link.String() {
					c.Violation("C10|dir|quick-node-reuse", "a quick-builder directory with entries %v that re-uses node values is %v; the same entries from separately made links give %v (%v)", d.names, d.link, want, err)
				}
			}
		}
		c.Sig("quick-node-reuse", true)
	})
	// a quick-builder session in which one entry is a caller-made Node that builds its sub-directory only
	// when asked for its size or link - from inside the outer NewMapDirectory call, on the same Builder
	r.Case("quick-lazy-subdirectory", map[string]any{"repeats": 12}, func(c *mon.Case) {
		rr := c.Rand()
		contents := map[string][]byte{}
		for _, n := range []string{"a", "b", "m", "z", "sub/x", "sub/y", "sub/zz", "warm/1", "warm/2", "warm/3", "warm/4", "warm/5"} {
			contents[n] = gen.Content(rr, "rand", 10+rr.Intn(200))
		}
		// the tree built eagerly, bottom-up, through the plain builders
		var want buildResult
		{
			st := store.New()
			ls := st.LinkSystem(false)
			mk := func(names ...string) []dagpb.PBLink {
				var es []dagpb.PBLink
				for _, n := range names {
					l, sz, err := builder.BuildUnixFSFile(bytes.NewReader(contents[n]), "", ls)
					if err != nil {
						c.Harness("file: %v", err)
						return nil
					}
					e, _ := builder.BuildUnixFSDirectoryEntry(n[strings.LastIndex(n, "/")+1:], int64(sz), l)
					es = append(es, e)
				}
				return es
			}
			sl, ssz, err := builder.BuildUnixFSDirectory(mk("sub/x", "sub/y", "sub/zz"), ls)
			if err != nil {
				c.Harness("sub: %v", err)
				return
			}
			se, _ := builder.BuildUnixFSDirectoryEntry("sub", int64(ssz), sl)
			l, sz, err := builder.BuildUnixFSDirectory(append(mk("a", "b", "m", "z"), se), ls)
			if err != nil {
				c.Harness("outer: %v", err)
				return
			}
			want = buildResult{root: linkCid(l), size: sz}
		}
		for rep := 0; rep < 12; rep++ {
			st := store.New()
			var got buildResult
			c.Guard("quick session with a lazy sub-directory", func() {
				quickbuilder.Store(st.LinkSystem(false), func(b *quickbuilder.Builder) error {
					// an earlier directory of the same session
					b.NewMapDirectory(map[string]quickbuilder.Node{"1": b.NewBytesFile(contents["warm/1"]), "2": b.NewBytesFile(contents["warm/2"]), "3": b.NewBytesFile(contents["warm/3"]), "4": b.NewBytesFile(contents["warm/4"]), "5": b.NewBytesFile(contents["warm/5"])})
					lazy := &lazyDir{b: b, make: func() map[string]quickbuilder.Node {
						return map[string]quickbuilder.Node{"x": b.NewBytesFile(contents["sub/x"]), "y": b.NewBytesFile(contents["sub/y"]), "zz": b.NewBytesFile(contents["sub/zz"])}
					}}
					d := b.NewMapDirectory(map[string]quickbuilder.Node{"a": b.NewBytesFile(contents["a"]), "b": b.NewBytesFile(contents["b"]), "m": b.NewBytesFile(contents["m"]), "z": b.NewBytesFile(contents["z"]), "sub": lazy})
					sz, _ := d.Size()
					got = buildResult{root: linkCid(d.Link()), size: uint64(sz)}
					return nil
				})
			})
			c.Count("builds_compared", 1)
			c.Count("quick_sessions_with_lazy_nodes", 1)
			if got.key() != want.key() {
				c.Violation("C10|dir|quick-lazy-node", "a quick-builder directory one of whose entries builds its sub-directory on demand (inside the outer NewMapDirectory call) is (%s, %d) in repeat %d; the same tree built bottom-up is (%s, %d)", got.root, got.size, rep, want.root, want.size)
				break
			}
		}
		c.Sig("quick-lazy-subdirectory", true)
	})
	// an on-disk tree in which some files are further names of one inode (hard links), and the tree in
	// which the same names hold separate copies: the logical input - names and bytes - is the same
	for i := 0; i < r.Pick(4, 30); i++ {
		i := i
		r.Case(fmt.Sprintf("fs-hardlinks-vs-copies/%d", i), map[string]any{"tree": i}, func(c *mon.Case) {
			rr := c.Rand()
			dir, err := os.MkdirTemp("", "verif-c10-")
			if err != nil {
				c.Harness("mktemp: %v", err)
				return
			}
			defer os.RemoveAll(dir)
			type fl struct {
				path    string
				content []byte
				same    int // index of the file this one is another name of, or -1
			}
			var files []fl
			for k := 0; k < 3+rr.Intn(6); k++ {
				n := []int{0, 1 + rr.Intn(3000), 262144, 262145 + rr.Intn(300000), 3*262144 + rr.Intn(10)}[rr.Intn(5)]
				sub := []string{"", "a", "a/b", "z"}[rr.Intn(4)]
				files = append(files, fl{filepath.Join(sub, fmt.Sprintf("f%d", k)), gen.Content(rr, "rand", n), -1})
				for h := rr.Intn(3); h > 0; h-- {
					sub := []string{"", "a", "a/b", "z"}[rr.Intn(4)]
					files = append(files, fl{filepath.Join(sub, fmt.Sprintf("f%d-name%d", k, h)), nil, len(files) - 1})
				}
			}
			var res [2]buildResult
			linked := 0
			for v, root := range []string{filepath.Join(dir, "linked", "t"), filepath.Join(dir, "copied", "t")} {
				for _, f := range files {
					p := filepath.Join(root, f.path)
					os.MkdirAll(filepath.Dir(p), 0o755)
					var werr error
					if f.same >= 0 && v == 0 {
						src := f.same
						for files[src].same >= 0 {
							src = files[src].same
						}
						werr = os.Link(filepath.Join(root, files[src].path), p)
						linked++
					} else {
						src := f
						for src.same >= 0 {
							src = files[src.same]
						}
						werr = os.WriteFile(p, src.content, 0o644)
					}
					if werr != nil {
						c.Harness("preparing the tree: %v", werr)
						return
					}
				}
				st := store.New()
				c.Guard("BuildUnixFSRecursive", func() {
					l, sz, err := builder.BuildUnixFSRecursive(root, st.LinkSystem(false))
					res[v] = buildResult{root: linkCid(l), size: sz}
					if err != nil {
						res[v].err = err.Error()
					}
				})
			}
			c.Count("builds_compared", 1)
			c.Count("hard_linked_names", int64(linked))
			if res[0].key() != res[1].key() {
				c.Violation("C10|fs|hardlinks-vs-copies", "a tree of %d names of which %d are hard links imports as (%s, %d, err %q); the same names holding separate copies of the same bytes import as (%s, %d, err %q)", len(files), linked, res[0].root, res[0].size, res[0].err, res[1].root, res[1].size, res[1].err)
			}
			c.Sig(fmt.Sprintf("fs-hardlinks|%v", linked > 0), true)
		})
	}
	r.Case("symlink", map[string]any{"targets": 6}, func(c *mon.Case) {
		for _, tgt := range []string{"", "a", "../x/y", "/abs/target", "ünï", string(bytes.Repeat([]byte("p/"), 200))} {
			var first buildResult
			for i := 0; i < 4; i++ {
				st := store.New()
				l, sz, err := builder.BuildUnixFSSymlink(tgt, st.LinkSystem(false))
				res := buildResult{root: linkCid(l), size: sz}
				if err != nil {
					res.err = err.Error()
				}
				c.Count("builds_compared", 1)
				if i == 0 {
					first = res
				} else if res.key() != first.key() {
					c.Violation("C10|symlink", "symlink %q: build %d differs", tgt, i)
				}
			}
		}
		c.Sig("symlink", true)
	})
}

var _ ipld.Link
var _ = multihash.SHA2_256
