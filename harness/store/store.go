// Package store is the instrumented block store behind every LinkSystem the
// monitors hand to the library: it logs every storage read-open, write-open
// and commit in order, and injects faults according to a plan.
package store

import (
	"bytes"
	"context"
	"errors"
	"fmt"
	"io"
	"sync"

	"github.com/ipfs/go-cid"
	"github.com/ipfs/go-unixfsnode"
	"github.com/ipld/go-ipld-prime"
	"github.com/ipld/go-ipld-prime/codec"
	"github.com/ipld/go-ipld-prime/datamodel"
	"github.com/ipld/go-ipld-prime/linking"
	cidlink "github.com/ipld/go-ipld-prime/linking/cid"
	"github.com/multiformats/go-multihash"
)

type Event struct {
	Seq int    `json:"seq"`
	Op  string `json:"op"` // read | wopen | commit
	Cid string `json:"cid,omitempty"`
	Len int    `json:"len,omitempty"`
	Err string `json:"err,omitempty"`
}

// ErrNotFound is the not-found flavour of injected error.
type ErrNotFound struct{ Cid cid.Cid }

func (e ErrNotFound) Error() string  { return "verif store: block not found: " + e.Cid.String() }
func (e ErrNotFound) NotFound() bool { return true }
func (e ErrNotFound) Is(err error) bool {
	_, ok := err.(ErrNotFound)
	return ok
}

// ErrInjected is the arbitrary-I/O-error flavour.
var ErrInjected = errors.New("verif store: injected I/O error")

type Store struct {
	mu     sync.Mutex
	blocks map[string][]byte
	order  []cid.Cid // commit order (distinct)

	Logging bool
	log     []Event
	seq     int

	// fault plan
	Absent       map[string]bool // reads of these CIDs fail
	AbsentErr    error           // nil => ErrNotFound{cid}
	FailWriteStyle int           // how a failing Write reports: 0 = (0, err), 1 = (len(p), err), 2 = (len(p)/2, err)
	Closed       bool            // the store has been shut: every read fails
	WriterCloses int             // Close calls on block writers (none by the unchanged builders)
	IgnoreCtx    bool            // serve reads whatever context they are made under
	CtxLost      int             // reads refused because the request context was missing or cancelled
	FailReadAt   int             // k-th read-open (1-based) fails; 0 = never
	FailWOpenAt  int
	FailCommitAt int
	FailWriteAt  int // k-th Write call on any writer
	FailErr      error

	Reads, WOpens, Commits, Writes int
	InjectedHits                   int

	LoadBudget     int // 0 = unlimited; reads beyond it fail and set BudgetExceeded
	BudgetExceeded bool

	// OnCommit is called (under the store lock) just before a block becomes
	// visible, with the set of blocks already committed.
	OnCommit func(s *Store, c cid.Cid, data []byte)
	// OnRead is called for every read-open, outside the lock.
	OnRead func(c cid.Cid)
}

func New() *Store {
	return &Store{blocks: map[string][]byte{}}
}

func (s *Store) failErr() error {
	if s.FailErr != nil {
		return s.FailErr
	}
	return ErrInjected
}

func (s *Store) logf(op string, c cid.Cid, n int, err error) {
	if !s.Logging {
		return
	}
	e := Event{Seq: s.seq, Op: op, Len: n}
	if c.Defined() {
		e.Cid = c.String()
	}
	if err != nil {
		e.Err = err.Error()
	}
	s.seq++
	s.log = append(s.log, e)
}

// HasLocked may be used from OnCommit.
func (s *Store) HasLocked(c cid.Cid) bool {
	_, ok := s.blocks[c.KeyString()]
	return ok
}

func (s *Store) Has(c cid.Cid) bool {
	s.mu.Lock()
	defer s.mu.Unlock()
	return s.HasLocked(c)
}

// Get bypasses logging and faults (oracle access).
func (s *Store) Get(c cid.Cid) ([]byte, bool) {
	s.mu.Lock()
	defer s.mu.Unlock()
	b, ok := s.blocks[c.KeyString()]
	return b, ok
}

// Put bypasses logging and faults (fixture creation).
func (s *Store) Put(c cid.Cid, data []byte) {
	s.mu.Lock()
	defer s.mu.Unlock()
	k := c.KeyString()
	if _, ok := s.blocks[k]; !ok {
		s.order = append(s.order, c)
	}
	s.blocks[k] = data
}

// PutBlock hashes data and stores it under a CID of the given version/codec.
// PutAs stores data under the given CID (whatever its hash function says).
func (s *Store) PutAs(c cid.Cid, data []byte) cid.Cid {
	s.mu.Lock()
	defer s.mu.Unlock()
	k := c.KeyString()
	if _, ok := s.blocks[k]; !ok {
		s.order = append(s.order, c)
	}
	s.blocks[k] = append([]byte(nil), data...)
	return c
}

func (s *Store) PutBlock(version int, codec uint64, data []byte) cid.Cid {
	mh, err := multihash.Sum(data, multihash.SHA2_256, -1)
	if err != nil {
		panic(err)
	}
	var c cid.Cid
	if version == 0 {
		c = cid.NewCidV0(mh)
	} else {
		c = cid.NewCidV1(codec, mh)
	}
	s.Put(c, data)
	return c
}

func (s *Store) Delete(c cid.Cid) {
	s.mu.Lock()
	defer s.mu.Unlock()
	delete(s.blocks, c.KeyString())
}

func (s *Store) Len() int {
	s.mu.Lock()
	defer s.mu.Unlock()
	return len(s.blocks)
}

// Cids returns the stored CIDs in first-commit order.
func (s *Store) Cids() []cid.Cid {
	s.mu.Lock()
	defer s.mu.Unlock()
	out := make([]cid.Cid, 0, len(s.order))
	for _, c := range s.order {
		if _, ok := s.blocks[c.KeyString()]; ok {
			out = append(out, c)
		}
	}
	return out
}

func (s *Store) TotalBytes() int {
	s.mu.Lock()
	defer s.mu.Unlock()
	n := 0
	for _, b := range s.blocks {
		n += len(b)
	}
	return n
}

// ResetLog clears the event log and the operation counters (not the blocks,
// not the fault plan).
type ctxKey struct{}

// Ctx is the context of "the request" every monitor works under. The store
// behaves like a request-scoped block source: a read made under a context
// that does not descend from it (or that is cancelled) is refused.
var Ctx = context.WithValue(context.Background(), ctxKey{}, "verif-request")

// ErrCtxLost is returned for a read that does not carry the request context.
var ErrCtxLost = errors.New("verif store: read made outside the caller's request context")

func (s *Store) ResetLog() {
	s.mu.Lock()
	defer s.mu.Unlock()
	s.log = nil
	s.seq = 0
	s.Reads, s.WOpens, s.Commits, s.Writes, s.InjectedHits = 0, 0, 0, 0, 0
	s.BudgetExceeded = false
}

// ClearFaults removes the fault plan.
func (s *Store) ClearFaults() {
	s.mu.Lock()
	defer s.mu.Unlock()
	s.Absent, s.AbsentErr = nil, nil
	s.FailReadAt, s.FailWOpenAt, s.FailCommitAt, s.FailWriteAt, s.FailWriteStyle = 0, 0, 0, 0, 0
	s.FailErr = nil
	s.LoadBudget = 0
}

func (s *Store) Log() []Event {
	s.mu.Lock()
	defer s.mu.Unlock()
	return append([]Event(nil), s.log...)
}

// ReadCids returns the CIDs of successful and failed read-opens, in order.
func (s *Store) ReadCids() []string {
	s.mu.Lock()
	defer s.mu.Unlock()
	var out []string
	for _, e := range s.log {
		if e.Op == "read" {
			out = append(out, e.Cid)
		}
	}
	return out
}

func (s *Store) OpenRead(lc linking.LinkContext, l datamodel.Link) (io.Reader, error) {
	cl, ok := l.(cidlink.Link)
	if !ok {
		return nil, fmt.Errorf("verif store: not a cid link: %T", l)
	}
	if s.Closed {
		return nil, fmt.Errorf("verif store: read from a store that has been closed")
	}
	if !s.IgnoreCtx {
		// a request-scoped block source: it serves only reads made under the caller's context
		if lc.Ctx == nil || lc.Ctx.Value(ctxKey{}) == nil {
			s.mu.Lock()
			s.CtxLost++
			s.logf("read", cl.Cid, 0, ErrCtxLost)
			s.mu.Unlock()
			return nil, ErrCtxLost
		}
		if err := lc.Ctx.Err(); err != nil {
			s.mu.Lock()
			s.CtxLost++
			s.logf("read", cl.Cid, 0, err)
			s.mu.Unlock()
			return nil, err
		}
	}
	if s.OnRead != nil {
		s.OnRead(cl.Cid)
	}
	s.mu.Lock()
	defer s.mu.Unlock()
	s.Reads++
	k := cl.Cid.KeyString()
	if s.LoadBudget > 0 && s.Reads > s.LoadBudget {
		s.BudgetExceeded = true
		err := fmt.Errorf("verif store: load budget of %d exceeded", s.LoadBudget)
		s.logf("read", cl.Cid, 0, err)
		return nil, err
	}
	if s.FailReadAt > 0 && s.Reads == s.FailReadAt {
		s.InjectedHits++
		err := s.failErr()
		s.logf("read", cl.Cid, 0, err)
		return nil, err
	}
	if s.Absent[k] {
		s.InjectedHits++
		var err error = ErrNotFound{cl.Cid}
		if s.AbsentErr != nil {
			err = s.AbsentErr
		}
		s.logf("read", cl.Cid, 0, err)
		return nil, err
	}
	b, ok := s.blocks[k]
	if !ok {
		err := ErrNotFound{cl.Cid}
		s.logf("read", cl.Cid, 0, err)
		return nil, err
	}
	s.logf("read", cl.Cid, len(b), nil)
	return bytes.NewReader(b), nil
}

type writer struct {
	s   *Store
	buf bytes.Buffer
}

func (w *writer) Write(p []byte) (int, error) {
	w.s.mu.Lock()
	w.s.Writes++
	fail := w.s.FailWriteAt > 0 && w.s.Writes == w.s.FailWriteAt
	if fail {
		w.s.InjectedHits++
	}
	err := w.s.failErr()
	w.s.mu.Unlock()
	if fail {
		switch w.s.FailWriteStyle {
		case 1:
			// the bytes were taken (buffered, mirrored to a first sink) and the failure is reported with them
			w.buf.Write(p)
			return len(p), err
		case 2:
			// a short write
			k := len(p) / 2
			w.buf.Write(p[:k])
			return k, err
		}
		return 0, err
	}
	return w.buf.Write(p)
}

// Close makes the block writer an io.Closer, as the writers of file-backed stores are (a temporary
// file that is renamed on commit). Nothing in the store depends on it being called.
func (w *writer) Close() error {
	w.s.mu.Lock()
	w.s.WriterCloses++
	w.s.mu.Unlock()
	return nil
}

func (s *Store) OpenWrite(_ linking.LinkContext) (io.Writer, linking.BlockWriteCommitter, error) {
	s.mu.Lock()
	s.WOpens++
	if s.FailWOpenAt > 0 && s.WOpens == s.FailWOpenAt {
		s.InjectedHits++
		err := s.failErr()
		s.logf("wopen", cid.Undef, 0, err)
		s.mu.Unlock()
		return nil, nil, err
	}
	s.logf("wopen", cid.Undef, 0, nil)
	s.mu.Unlock()
	w := &writer{s: s}
	return w, func(l datamodel.Link) error {
		cl, ok := l.(cidlink.Link)
		if !ok {
			return fmt.Errorf("verif store: not a cid link: %T", l)
		}
		s.mu.Lock()
		defer s.mu.Unlock()
		s.Commits++
		if s.FailCommitAt > 0 && s.Commits == s.FailCommitAt {
			s.InjectedHits++
			err := s.failErr()
			s.logf("commit", cl.Cid, w.buf.Len(), err)
			return err
		}
		data := append([]byte(nil), w.buf.Bytes()...)
		if s.OnCommit != nil {
			s.OnCommit(s, cl.Cid, data)
		}
		k := cl.Cid.KeyString()
		if _, ok := s.blocks[k]; !ok {
			s.order = append(s.order, cl.Cid)
		}
		s.blocks[k] = data
		s.logf("commit", cl.Cid, len(data), nil)
		return nil
	}, nil
}

// LinkSystem returns a fresh default link system over this store. With
// reifiers set, the "unixfs" / "unixfs-preload" reifiers are registered.
func (s *Store) LinkSystem(reifiers bool) *ipld.LinkSystem {
	ls := cidlink.DefaultLinkSystem()
	ls.StorageReadOpener = s.OpenRead
	ls.StorageWriteOpener = s.OpenWrite
	if !reifiers {
		// the link system handed to builders (and used for the harness's own plain loads): the
		// builders take no context from their caller, so what they read cannot carry one
		ls.StorageReadOpener = func(lc linking.LinkContext, l datamodel.Link) (io.Reader, error) {
			if lc.Ctx == nil || lc.Ctx.Value(ctxKey{}) == nil {
				lc.Ctx = Ctx
			}
			return s.OpenRead(lc, l)
		}
	}
	if reifiers {
		unixfsnode.AddUnixFSReificationToLinkSystem(&ls)
	}
	return &ls
}

// LinkSystemCfg is LinkSystem with two further configuration axes a caller may
// have: a KnownReifiers table that already holds other entries before the
// UnixFS reifiers are added, and unixfsnode.Reify installed as NodeReifier (so
// that every loaded block comes back already reified).
func (s *Store) LinkSystemCfg(reifiers, prepopulated, nodeReifier bool) *ipld.LinkSystem {
	ls := cidlink.DefaultLinkSystem()
	ls.StorageReadOpener = s.OpenRead
	ls.StorageWriteOpener = s.OpenWrite
	if prepopulated {
		ls.KnownReifiers = map[string]linking.NodeReifier{
			"verif-other-adl": func(_ linking.LinkContext, n datamodel.Node, _ *linking.LinkSystem) (datamodel.Node, error) {
				return n, nil
			},
		}
	}
	if reifiers {
		unixfsnode.AddUnixFSReificationToLinkSystem(&ls)
		if prepopulated {
			// registering once more (a second component doing its own set-up) must change nothing
			unixfsnode.AddUnixFSReificationToLinkSystem(&ls)
		}
	}
	if nodeReifier {
		ls.NodeReifier = unixfsnode.Reify
	}
	return &ls
}

// LinkSystemDerived returns a link system obtained the way callers derive
// per-request link systems: the UnixFS reifiers are registered on a link
// system reading from base, that value is copied, and the copy's storage is
// replaced by s.
func (s *Store) LinkSystemDerived(base *Store) *ipld.LinkSystem {
	orig := base.LinkSystem(true)
	ls := *orig
	ls.StorageReadOpener = s.OpenRead
	ls.StorageWriteOpener = s.OpenWrite
	return &ls
}

type pieceWriter struct {
	w   io.Writer
	max int
}

func (p pieceWriter) Write(b []byte) (int, error) {
	n := 0
	for len(b) > 0 {
		k := p.max
		if k > len(b) {
			k = len(b)
		}
		m, err := p.w.Write(b[:k])
		n += m
		if err != nil {
			return n, err
		}
		b = b[k:]
	}
	return n, nil
}

// ChunkedEncoders makes every encoder of ls hand its output to the storage
// writer in pieces of at most max bytes (the codec.Encoder contract allows any
// number of Write calls per block).
func ChunkedEncoders(ls *ipld.LinkSystem, max int) *ipld.LinkSystem {
	orig := ls.EncoderChooser
	ls.EncoderChooser = func(lp datamodel.LinkPrototype) (codec.Encoder, error) {
		enc, err := orig(lp)
		if err != nil {
			return nil, err
		}
		return func(n datamodel.Node, w io.Writer) error {
			return enc(n, pieceWriter{w, max})
		}, nil
	}
	return ls
}

// FramedRawEncoders makes the encoder ls uses for raw blocks prefix every
// block with hdr bytes (a length-and-checksum style frame), as a caller with
// its own at-rest format for leaves would.
func FramedRawEncoders(ls *ipld.LinkSystem, hdr int) *ipld.LinkSystem {
	return StyledEncoders(ls, hdr, 0)
}

type plainReader struct{ r io.Reader }

func (p plainReader) Read(b []byte) (int, error) { return p.r.Read(b) }

// StyledEncoders wraps every encoder of ls so that it hands its output to the
// writer the way callers' encoders do: style 0 with Write, 1 with
// io.WriteString, 2 with io.Copy from a source that has no WriteTo (a pipe, a
// limited reader), 3 with io.Copy from a bytes.Reader. Raw blocks are
// additionally prefixed with hdr frame bytes when hdr > 0.
func StyledEncoders(ls *ipld.LinkSystem, hdr, style int) *ipld.LinkSystem {
	orig := ls.EncoderChooser
	ls.EncoderChooser = func(lp datamodel.LinkPrototype) (codec.Encoder, error) {
		enc, err := orig(lp)
		if err != nil {
			return nil, err
		}
		isRaw := false
		if clp, ok := lp.(cidlink.LinkPrototype); ok && clp.Codec == cid.Raw {
			isRaw = true
		}
		return func(n datamodel.Node, w io.Writer) error {
			var body bytes.Buffer
			if isRaw && hdr > 0 {
				b, err := n.AsBytes()
				if err != nil {
					return err
				}
				frame := make([]byte, hdr)
				for i := range frame {
					frame[i] = byte(len(b) >> (8 * uint(i%4)))
				}
				body.Write(frame)
				body.Write(b)
			} else if err := enc(n, &body); err != nil {
				return err
			}
			all := body.Bytes()
			split := len(all) / 3
			switch style {
			case 1:
				if _, err := io.WriteString(w, string(all[:split])); err != nil {
					return err
				}
				_, err := io.WriteString(w, string(all[split:]))
				return err
			case 2:
				_, err := io.Copy(w, plainReader{bytes.NewReader(all)})
				return err
			case 3:
				_, err := io.Copy(w, bytes.NewReader(all))
				return err
			}
			if _, err := w.Write(all[:split]); err != nil {
				return err
			}
			_, err := w.Write(all[split:])
			return err
		}, nil
	}
	return ls
}

// SplitLinkSystem reads from one store and writes to another (an import into a
// fresh store while an older snapshot serves reads).
func SplitLinkSystem(read, write *Store) *ipld.LinkSystem {
	ls := cidlink.DefaultLinkSystem()
	// the builders take no context from their caller, so whatever they read cannot carry one
	ls.StorageReadOpener = func(lc linking.LinkContext, l datamodel.Link) (io.Reader, error) {
		if lc.Ctx == nil || lc.Ctx.Value(ctxKey{}) == nil {
			lc.Ctx = Ctx
		}
		return read.OpenRead(lc, l)
	}
	ls.StorageWriteOpener = write.OpenWrite
	return &ls
}

// Clone copies the blocks (not log, not faults) into a new store.
func (s *Store) Clone() *Store {
	s.mu.Lock()
	defer s.mu.Unlock()
	n := New()
	for k, v := range s.blocks {
		n.blocks[k] = v
	}
	n.order = append(n.order, s.order...)
	return n
}
